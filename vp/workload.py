"""Program workloads shared by the differential properties (C03, C05, C09, C13, C14 ...).

Every generator is a pure function of (seed, tier); a child keeps the programs whose bytes hash
to its shard, so identical programs always land in the same shard and distinct counts are exact.
"""
import pickle

from vp import asm, gen


def exhaustive(ctx, max_len, deep_len=None, deep_need=None):
    """Bounded-exhaustive typed programs.  Sharded by well-typed 2-symbol prefix."""
    if ctx.shard == 0:
        for prog in asm.enumerate_programs(1):
            yield "exh", prog
    pre = asm.prefixes(2)
    for i, p in enumerate(pre):
        if i % ctx.nshards != ctx.shard:
            continue
        for prog in asm.enumerate_programs(max_len, p):
            yield "exh", prog
        if deep_len:
            for prog in asm.enumerate_programs(deep_len, p, need=deep_need):
                if len(prog) - 1 == deep_len:
                    yield "exh-deep", prog


def random_long(ctx, n, max_len=40):
    for i in range(n):
        rng = asm.rng_for(ctx.seed, f"rl{i}")
        prog = asm.random_program(rng, max_len=max_len)
        data = asm.assemble(prog)
        if ctx.mine(data):
            yield "rand", prog, data


def values(seed, n, plain_only=False):
    for v in gen.directed_values():
        yield v
    for s in gen.scalars():
        yield s
    for i in range(n):
        rng = asm.rng_for(seed, f"val{i}:{plain_only}")
        g = gen.ValueGen(rng, plain_only=plain_only, max_depth=rng.choice([2, 3, 4, 5]))
        yield g.value()


def natural(ctx, n, plain_only=False, with_value=False):
    """(label, bytes[, value]) for every protocol encoding of generated values."""
    for idx, v in enumerate(values(ctx.seed, n, plain_only)):
        for label, data in gen.natural_pickles(v):
            if ctx.mine(data):
                yield ("nat-" + label, data, v) if with_value else ("nat-" + label, data)
        if idx % 7 == 0:
            for proto in (0, 2, 4):
                try:
                    data = gen.py_pickle(v, proto)
                except Exception:
                    continue
                if ctx.mine(data):
                    yield ("natpy-p%d" % proto, data, v) if with_value else ("natpy-p%d" % proto, data)


def vocab_fates(ctx, names=None, framings=("none", "proto2", "proto4frame"), fates=None, resolves=None, callops=None):
    """Fate matrix: every call-making opcode x every way of disposing of the value."""
    if names is None:
        names = [("vp_sink", "hit"), ("__builtin__", "exec"), ("builtins", "getattr"), ("os", "system"),
                 ("vp_other", "hit")]
        # special-cased attribute names, from builtins and from a non-stdlib module; fewer framings each
        names += [("builtins", n) for n in gen.SPECIAL_NAMES] + [("vp_sink", n) for n in gen.SPECIAL_NAMES]
        # the same special names from a *stdlib* module (rules exempt "names imported from the stdlib")
        names += [("collections", n) for n in gen.EVALCLASS + gen.RULE_NAMES]
    for i, (m, n) in enumerate(names):
        frs = framings if i < 5 else framings[:1] if ctx.tier == "quick" else framings
        for r in (resolves or gen.RESOLVE_OPS):
            for c in (callops or gen.CALL_OPS):
                call = gen.make_call(r, c, m, n, ["x", 1])
                if call is None:
                    continue
                for fate in (fates or gen.FATES):
                    body = gen.apply_fate(call, fate)
                    for fr in frs:
                        data = gen.frame(body, fr)
                        if ctx.mine(data):
                            yield f"voc-{r}-{c}-{fate}-{fr}", data, {"module": m, "name": n}


def per_opcode_programs():
    """At least one accepted-by-CPython program per pickle opcode (all 68), so that 'refuse,
    don't drop' is exercised for the ones fickling does not model."""
    A = asm
    progs = {
        "INT": (A.INT(5),), "BININT": (A.BININT(-5),), "BININT1": (A.BININT1(5),), "BININT2": (A.BININT2(500),),
        "LONG": (A.LONG(5),), "LONG1": (A.LONG1(2**40),), "LONG4": (A.LONG4(2**40),),
        "STRING": (A.STRING("abc"),), "BINSTRING": (A.BINSTRING("abc"),), "SHORT_BINSTRING": (A.SHORT_BINSTRING("abc"),),
        "BINBYTES": (A.BINBYTES(b"ab"),), "SHORT_BINBYTES": (A.SHORT_BINBYTES(b"ab"),), "BINBYTES8": (A.BINBYTES8(b"ab"),),
        "BYTEARRAY8": (A.BYTEARRAY8(b"ab"),), "NONE": (A.NONE,), "NEWTRUE": (A.NEWTRUE,), "NEWFALSE": (A.NEWFALSE,),
        "UNICODE": (A.UNICODE("ab"),), "SHORT_BINUNICODE": (A.SBU("ab"),), "BINUNICODE": (A.BINUNICODE("ab"),),
        "BINUNICODE8": (A.BINUNICODE8("ab"),), "FLOAT": (A.FLOAT(1.5),), "BINFLOAT": (A.BINFLOAT(1.5),),
        "EMPTY_LIST": (A.EMPTY_LIST,), "APPEND": (A.EMPTY_LIST, A.NONE, A.APPEND), "APPENDS": (A.EMPTY_LIST, A.MARK, A.NONE, A.APPENDS),
        "LIST": (A.MARK, A.NONE, A.LIST), "EMPTY_TUPLE": (A.EMPTY_TUPLE,), "TUPLE": (A.MARK, A.NONE, A.TUPLE),
        "TUPLE1": (A.NONE, A.TUPLE1), "TUPLE2": (A.NONE, A.NONE, A.TUPLE2), "TUPLE3": (A.NONE, A.NONE, A.NONE, A.TUPLE3),
        "EMPTY_DICT": (A.EMPTY_DICT,), "DICT": (A.MARK, A.SBU("k"), A.NONE, A.DICT),
        "SETITEM": (A.EMPTY_DICT, A.SBU("k"), A.NONE, A.SETITEM), "SETITEMS": (A.EMPTY_DICT, A.MARK, A.SBU("k"), A.NONE, A.SETITEMS),
        "EMPTY_SET": (A.EMPTY_SET,), "ADDITEMS": (A.EMPTY_SET, A.MARK, A.BININT1(1), A.ADDITEMS),
        "FROZENSET": (A.MARK, A.BININT1(1), A.FROZENSET), "POP": (A.NONE, A.NONE, A.POP), "DUP": (A.NONE, A.DUP, A.TUPLE2),
        "MARK": (A.MARK, A.LIST), "POP_MARK": (A.NONE, A.MARK, A.NONE, A.POP_MARK),
        "GET": (A.NONE, A.PUT(1), A.GET(1), A.TUPLE2), "BINGET": (A.NONE, A.BINPUT(1), A.BINGET(1), A.TUPLE2),
        "LONG_BINGET": (A.NONE, A.LONG_BINPUT(1), A.LONG_BINGET(1), A.TUPLE2), "PUT": (A.NONE, A.PUT(1)),
        "BINPUT": (A.NONE, A.BINPUT(1)), "LONG_BINPUT": (A.NONE, A.LONG_BINPUT(1)), "MEMOIZE": (A.NONE, A.MEMOIZE, A.BINGET(0), A.TUPLE2),
        "GLOBAL": (A.GLOBAL("vp_sink", "hit"),), "STACK_GLOBAL": (A.SBU("vp_sink"), A.SBU("hit"), A.STACK_GLOBAL),
        "REDUCE": (A.GLOBAL("vp_sink", "hit"), A.EMPTY_TUPLE, A.REDUCE),
        "BUILD": (A.GLOBAL("vp_sink", "hit"), A.EMPTY_TUPLE, A.REDUCE, A.NONE, A.BUILD),
        "INST": (A.MARK, A.INST("vp_sink", "K")), "OBJ": (A.MARK, A.GLOBAL("vp_sink", "K"), A.OBJ),
        "NEWOBJ": (A.GLOBAL("vp_sink", "K"), A.EMPTY_TUPLE, A.NEWOBJ),
        "NEWOBJ_EX": (A.GLOBAL("vp_sink", "K"), A.EMPTY_TUPLE, A.EMPTY_DICT, A.NEWOBJ_EX),
        "PROTO": (A.PROTO(2), A.NONE), "STOP": (A.NONE,),
        "FRAME": (asm.Sym("FRAME(1)", b"\x95" + (1).to_bytes(8, "little"), "nop"), A.NONE),
        "PERSID": (asm.Sym("PERSID(pid)", b"Ppid\n", "push", "o"),), "BINPERSID": (A.SBU("pid"), A.BINPERSID),
        "EXT1": (A.EXT1(1),), "EXT2": (asm.Sym("EXT2(1)", b"\x83\x01\x00", "push", "o"),),
        "EXT4": (asm.Sym("EXT4(1)", b"\x84\x01\x00\x00\x00", "push", "o"),),
        "NEXT_BUFFER": (asm.Sym("NEXT_BUFFER", b"\x97", "push", "o"),),
        "READONLY_BUFFER": (A.SHORT_BINBYTES(b"x"), asm.Sym("READONLY_BUFFER", b"\x98", "nop")),
    }
    for name, p in progs.items():
        yield name, tuple(p) + (A.STOP,)
        # and once more with the value discarded, so that a dropped opcode cannot hide in `result`
        yield name, tuple(p) + (A.POP, A.NONE, A.STOP) if name not in ("STOP",) else tuple(p) + (A.STOP,)


def directed_programs():
    """Hand-assembled witnesses of listed findings and of repaired defects, replayed on every run
    (a listed finding prints its KNOWN-FINDING line deterministically; a repaired one must stay
    silent)."""
    A = asm
    g = A.GLOBAL
    return [
        ("shadow-callee", (g("vp_sink", "hit"), g("vp_other", "hit"), A.POP, A.EMPTY_TUPLE, A.REDUCE, A.STOP)),
        ("shadow-value", (g("vp_sink", "hit"), g("vp_other", "hit"), A.TUPLE2, A.STOP)),
        # the same attribute name resolved from module A, then B, then A again right before it is used: a decompile
        # that refers to globals by bare name has to import A again (it does) - dropping "repeated" imports breaks it
        ("shadow-aba-call", (g("vp_sink", "hit"), A.POP, g("vp_other", "hit"), A.POP, g("vp_sink", "hit"), A.MARK, A.SBU("x"),
                             A.TUPLE, A.REDUCE, A.STOP)),
        ("shadow-aba-call-sg", (A.SBU("vp_sink"), A.SBU("hit"), A.STACK_GLOBAL, A.POP, A.SBU("vp_other"), A.SBU("hit"), A.STACK_GLOBAL,
                                A.POP, A.SBU("vp_sink"), A.SBU("hit"), A.STACK_GLOBAL, A.EMPTY_TUPLE, A.REDUCE, A.STOP)),
        ("shadow-aba-inst", (g("vp_sink", "K"), A.POP, g("vp_other", "K"), A.POP, A.MARK, A.BININT1(1), A.INST("vp_sink", "K"), A.STOP)),
        ("shadow-abab-calls", (g("vp_sink", "hit"), A.EMPTY_TUPLE, A.REDUCE, A.POP, g("vp_other", "hit"), A.EMPTY_TUPLE, A.REDUCE, A.POP,
                               g("vp_sink", "hit"), A.EMPTY_TUPLE, A.REDUCE, A.POP, g("vp_other", "hit"), A.EMPTY_TUPLE, A.REDUCE, A.STOP)),
        # batch / append opcodes whose target is a global pushed directly (the `sys.path.extend([...])` shape): the VM
        # performs the attribute call; a decompiler either models it or refuses - and whatever follows is still there
        ("append-on-global-then-call", (g("vp_sink", "K"), A.BININT1(1), A.APPEND, A.POP, g("vp_sink", "hit"), A.MARK, A.SBU("after"),
                                        A.TUPLE, A.REDUCE, A.STOP)),
        ("appends-on-global-then-call", (g("vp_sink", "K"), A.MARK, A.BININT1(1), A.BININT1(2), A.APPENDS, A.POP, g("vp_sink", "hit"),
                                         A.EMPTY_TUPLE, A.REDUCE, A.STOP)),
        ("additems-on-global-then-call", (A.PROTO(4), g("vp_sink", "K"), A.MARK, A.BININT1(1), A.ADDITEMS, A.POP, g("vp_other", "hit"),
                                          A.EMPTY_TUPLE, A.REDUCE, A.STOP)),
        ("setitems-on-global-then-call", (g("vp_sink", "K"), A.MARK, A.SBU("k"), A.BININT1(1), A.SETITEMS, A.POP, g("vp_sink", "hit"),
                                          A.EMPTY_TUPLE, A.REDUCE, A.STOP)),
        # calls whose arguments are long constants (anything that abbreviates what it *prints* must not touch what it *keeps*)
        ("long-arg-call-popped", (g("vp_sink", "hit"), A.MARK, A.SBU("/srv/models/" + "x" * 50 + "/weights.bin"), A.TUPLE, A.REDUCE, A.POP,
                                  g("vp_sink", "ident"), A.EMPTY_TUPLE, A.REDUCE, A.STOP)),
        ("long-arg-call-list", (g("vp_sink", "hit"), A.MARK, A.EMPTY_LIST, A.SBU("y" * 40), A.APPEND, A.SHORT_BINBYTES(b"z" * 64), A.TUPLE,
                                A.REDUCE, A.STOP)),
        ("long-arg-obj", (A.MARK, g("vp_sink", "hit"), A.BINUNICODE("w" * 300), A.OBJ, A.STOP)),
        # names that are valid identifiers but change under NFKC (fullwidth letters, decomposed accents, ligatures, the micro
        # sign): the pickle VM takes them literally, Python's parser folds them when it reads source text
        ("nfkc-module-fullwidth", (A.PROTO(4), A.SBU("\uff4f\uff53"), A.SBU("getpid"), A.STACK_GLOBAL, A.EMPTY_TUPLE, A.REDUCE, A.STOP)),
        ("nfkc-module-nfd", (A.PROTO(4), A.SBU("mo\u0301dulo"), A.SBU("f"), A.STACK_GLOBAL, A.EMPTY_TUPLE, A.REDUCE, A.STOP)),
        ("nfkc-attr-ligature", (A.PROTO(4), A.SBU("vp_sink"), A.SBU("pro\ufb01le"), A.STACK_GLOBAL, A.MARK, A.BININT1(1), A.TUPLE, A.REDUCE, A.STOP)),
        ("nfkc-builtins-lookalike", (A.PROTO(4), A.SBU("\uff42uiltins"), A.SBU("eval"), A.STACK_GLOBAL, A.MARK, A.SBU("1+1"), A.TUPLE, A.REDUCE, A.STOP)),
        ("nfkc-micro-sign-attr", (A.PROTO(4), A.SBU("vp_sink"), A.SBU("\u00b5"), A.STACK_GLOBAL, A.STOP)),
        ("nfkc-newobj-ex-keywords", (A.PROTO(4), g("vp_sink", "KNewArgsEx"), A.BININT1(1), A.TUPLE1, A.EMPTY_DICT, A.MARK,
                                     A.SBU("\u00b5"), A.BININT1(2), A.SBU("\ufb01"), A.BININT1(3), A.SBU("e\u0301"), A.BININT1(4), A.SBU("plain"),
                                     A.BININT1(5), A.SETITEMS, A.NEWOBJ_EX, A.STOP)),
        ("nfkc-build-state-keys", (A.PROTO(4), g("vp_sink", "K"), A.EMPTY_TUPLE, A.NEWOBJ, A.EMPTY_DICT, A.SBU("\u00b5"), A.BININT1(1),
                                   A.SETITEM, A.BUILD, A.STOP)),
        # nesting deep enough that a nearly exhausted stack makes a query fail - once
        ("deep-lists-with-call", (g("vp_sink", "hit"),) + (A.EMPTY_LIST,) * 140 + (A.BININT1(1), A.APPEND) + (A.APPEND,) * 139 +
         (A.TUPLE1, A.REDUCE, A.STOP)),
        ("deep-lists-as-result", (g("os", "getpid"), A.EMPTY_TUPLE, A.REDUCE, A.POP) + (A.EMPTY_LIST,) * 140 + (A.BININT1(1), A.APPEND) +
         (A.APPEND,) * 139 + (A.STOP,)),
        ("deep-dicts-as-result", (g("vp_sink", "hit"), A.EMPTY_TUPLE, A.REDUCE, A.POP) + (A.EMPTY_DICT, A.BININT1(0)) * 120 + (A.NONE,) +
         (A.SETITEM,) * 120 + (A.STOP,)),
        # opcodes the pinned tree refuses (vacuous there): if a tree models them, it must model what the VM does.
        # PERSID hands the raw text of the line to persistent_load (no escape processing); extension codes resolve
        # through find_class (code 1 = vp_sink.hit, registered by vp.refvm) - every time, whatever was resolved before
        ("persid-backslashes", (asm.Sym("PERSID(C:\\models\\new\\table.bin)", b"PC:\\models\\new\\table.bin\n", "push", "o"), A.STOP)),
        ("persid-escapes", (A.MARK, asm.Sym("PERSID(a\\tb)", b"Pa\\tb\n", "push", "o"), asm.Sym("PERSID(\\x41)", b"P\\x41\n", "push", "o"),
                            asm.Sym("PERSID(q'q)", b"Pq'q\n", "push", "o"), A.LIST, A.STOP)),
        ("persid-then-call", (g("vp_sink", "hit"), asm.Sym("PERSID(k\\n)", b"Pk\\n\n", "push", "o"), A.TUPLE1, A.REDUCE, A.STOP)),
        ("ext1-call", (A.PROTO(2), A.EXT1(1), A.EMPTY_TUPLE, A.REDUCE, A.STOP)),
        ("ext2-call-dropped", (A.PROTO(2), asm.Sym("EXT2(1)", b"\x83\x01\x00", "push", "o"), A.NONE, A.TUPLE1, A.REDUCE, A.POP, A.NONE, A.STOP)),
        ("ext4-import-only", (A.PROTO(2), asm.Sym("EXT4(1)", b"\x84\x01\x00\x00\x00", "push", "o"), A.STOP)),
        ("ext1-twice", (A.PROTO(2), A.EXT1(1), A.EMPTY_TUPLE, A.REDUCE, A.EXT1(1), A.EMPTY_TUPLE, A.REDUCE, A.TUPLE2, A.STOP)),
        ("ext1-in-list", (A.PROTO(2), A.EMPTY_LIST, A.BININT1(1), A.APPEND, A.EXT1(1), A.APPEND, A.STOP)),
        ("bytearray8-result", (A.PROTO(5), A.BYTEARRAY8(b"abc"), A.STOP)),
        ("bytearray8-arg", (A.PROTO(5), g("vp_sink", "hit"), A.BYTEARRAY8(b"abc"), A.TUPLE1, A.REDUCE, A.STOP)),
        ("readonly-buffer-in-list", (A.PROTO(5), A.MARK, A.SHORT_BINBYTES(b"xy"), asm.Sym("READONLY_BUFFER", b"\x98", "nop"), A.BININT1(1), A.LIST, A.STOP)),
        ("readonly-buffer-bytearray", (A.PROTO(5), A.BYTEARRAY8(b"xy"), asm.Sym("READONLY_BUFFER", b"\x98", "nop"), A.NONE, A.TUPLE2, A.STOP)),
        ("nonident-global", (A.SBU("not an identifier"), A.SBU("x y"), A.STACK_GLOBAL, A.STOP)),
        ("nonident-quote", (A.SBU("a'b"), A.SBU("c"), A.STACK_GLOBAL, A.EMPTY_TUPLE, A.REDUCE, A.STOP)),
        ("dotted-attr", (A.SBU("vp_sink"), A.SBU("K.method"), A.STACK_GLOBAL, A.STOP)),
        ("use-before-def", (A.EMPTY_LIST, A.DUP, A.BINPERSID, A.APPEND, A.STOP)),
        ("arg-mutated-after-call", (A.EMPTY_LIST, A.BINPUT(0), g("vp_sink", "hit"), A.BINGET(0), A.TUPLE1,
                                     A.REDUCE, A.POP, A.BININT1(1), A.APPEND, A.STOP)),
        ("dict-arg-mutated-after-call", (A.EMPTY_DICT, A.BINPUT(0), g("vp_sink", "hit"), A.BINGET(0), A.TUPLE1,
                                          A.REDUCE, A.POP, A.SBU("k"), A.BININT1(1), A.SETITEM, A.STOP)),
        # repaired defects (fix: commits) - must hold now
        ("fixed-obj-pop", (A.MARK, g("__builtin__", "exec"), A.STRING("1"), A.OBJ, A.POP, A.NONE, A.STOP)),
        ("fixed-newobj-under-result", (g("vp_sink", "hit"), A.MARK, A.STRING("x"), A.TUPLE, A.NEWOBJ, A.NONE, A.STOP)),
        ("fixed-newobj-ex-popmark", (A.MARK, g("vp_sink", "K"), A.EMPTY_TUPLE, A.EMPTY_DICT, A.NEWOBJ_EX, A.POP_MARK, A.NONE, A.STOP)),
        ("fixed-binpersid-pop", (A.SBU("pid"), A.BINPERSID, A.POP, A.NONE, A.STOP)),
        ("fixed-dict-alias", (A.EMPTY_DICT, A.BINPUT(0), A.SBU("a"), A.BININT1(1), A.SETITEM, A.BINGET(0), A.TUPLE2, A.STOP)),
        ("fixed-dict-alias-setitems", (A.EMPTY_DICT, A.BINPUT(0), A.MARK, A.SBU("a"), A.BININT1(1), A.SETITEMS, A.BINGET(0), A.TUPLE2, A.STOP)),
        ("fixed-dict-alias-2nd-item", (A.EMPTY_DICT, A.BINPUT(0), A.SBU("a"), A.BININT1(1), A.SETITEM, A.SBU("b"), A.BININT1(1), A.SETITEM, A.BINGET(0), A.TUPLE2, A.STOP)),
        ("fixed-additems", (A.EMPTY_SET, A.MARK, A.BININT1(1), A.BININT1(255), A.ADDITEMS, A.STOP)),
        ("fixed-additems-nested", (A.EMPTY_LIST, A.EMPTY_SET, A.MARK, A.BININT1(1), A.ADDITEMS, A.APPEND, A.STOP)),
        ("fixed-frozenset", (A.MARK, A.BININT1(1), A.SBU("a"), A.FROZENSET, A.STOP)),
        ("fixed-dict-opcode", (A.MARK, A.SBU("k"), A.BININT1(1), A.SBU("j"), A.NONE, A.DICT, A.STOP)),
        ("fixed-memo-newobj-twice", (g("vp_sink", "K"), A.EMPTY_TUPLE, A.NEWOBJ, A.BINPUT(0), A.EMPTY_DICT, A.SBU("a"),
                                      A.BININT1(1), A.SETITEM, A.BUILD, A.BINGET(0), A.TUPLE2, A.STOP)),
    ] + batched_programs()


def batched_programs():
    """Containers filled by several batch opcodes (what the pickler emits past 1000 items, and what a
    crafted pickle may do at will): two/three ADDITEMS / APPENDS / SETITEMS batches, with repeats."""
    A = asm
    words = [A.SBU(w) for w in ("alpha", "beta", "gamma", "delta", "epsilon", "zeta", "eta", "theta")]
    ints = [A.BININT1(i) for i in range(1, 9)]
    out = []
    for tag, el in (("str", words), ("int", ints), ("mixed", [words[0], ints[0], words[1], A.NONE, ints[3], words[2]])):
        out.append((f"set-2batches-{tag}", (A.EMPTY_SET, A.MARK, el[0], A.ADDITEMS, A.MARK, *el[1:5], A.ADDITEMS, A.STOP)))
        out.append((f"set-3batches-{tag}", (A.EMPTY_SET, A.MARK, *el[0:2], A.ADDITEMS, A.MARK, *el[2:4], A.ADDITEMS,
                                           A.MARK, *el[4:6], A.ADDITEMS, A.STOP)))
        out.append((f"set-2batches-repeat-{tag}", (A.EMPTY_SET, A.MARK, *el[0:3], A.ADDITEMS, A.MARK, el[1], *el[3:6], el[0],
                                                  A.ADDITEMS, A.STOP)))
        out.append((f"list-2batches-{tag}", (A.EMPTY_LIST, A.MARK, *el[0:2], A.APPENDS, A.MARK, *el[2:6], A.APPENDS, A.STOP)))
        out.append((f"list-append-then-batch-{tag}", (A.EMPTY_LIST, el[0], A.APPEND, A.MARK, *el[1:5], A.APPENDS, el[5], A.APPEND, A.STOP)))
        out.append((f"dict-2batches-{tag}", (A.EMPTY_DICT, A.MARK, words[0], el[0], A.SETITEMS, A.MARK, words[1], el[1], words[2], el[2],
                                            words[3], el[3], A.SETITEMS, A.STOP)))
        out.append((f"dict-2batches-rekey-{tag}", (A.EMPTY_DICT, A.MARK, words[0], el[0], words[1], el[1], A.SETITEMS, A.MARK,
                                                  words[0], el[2], words[2], el[3], words[1], el[4], A.SETITEMS, A.STOP)))
    out.append(("set-in-memo-2batches", (A.EMPTY_SET, A.BINPUT(0), A.MARK, words[0], A.ADDITEMS, A.BINGET(0), A.MARK, words[1], words[2],
                                         words[3], A.ADDITEMS, A.TUPLE2, A.STOP)))
    return out


def torch_pickles(ctx, n):
    """Real-world shaped pickles: data.pkl of torch.save zip files and the stacked pickles of legacy
    torch files (persistent ids that are tuples, torch rebuild helpers, OrderedDict state)."""
    import io
    import pickletools
    import zipfile
    import torch
    from vp import torchfiles
    rng = asm.rng_for(ctx.seed, "torchpk")
    objs = list(torchfiles.models(torch, rng, n))
    if ctx.tier == "thorough":
        # the repository's own test model: a real-world sized pickle, eager and TorchScript
        try:
            import warnings
            import torchvision.models as tvm
            with warnings.catch_warnings():
                warnings.simplefilter("ignore")
                net = tvm.mobilenet_v2()
                objs.append(("mobilenet_v2", net))
                objs.append(("mobilenet_v2_state", net.state_dict()))
                buf = io.BytesIO()
                torch.jit.save(torch.jit.script(torch.nn.Sequential(torch.nn.Linear(3, 2), torch.nn.ReLU())), buf)
            with zipfile.ZipFile(io.BytesIO(buf.getvalue())) as z:
                for name in z.namelist():
                    if name.endswith(".pkl"):
                        yield "torch-jit-" + name.rsplit("/", 1)[-1], z.read(name)
        except Exception:
            pass
    for label, obj in objs:
        buf = io.BytesIO()
        torch.save(obj, buf)
        with zipfile.ZipFile(io.BytesIO(buf.getvalue())) as z:
            for name in z.namelist():
                if name.endswith("data.pkl"):
                    yield "torch-zip-" + label, z.read(name)
        buf = io.BytesIO()
        torch.save(obj, buf, _use_new_zipfile_serialization=False)
        data, pos, k = buf.getvalue(), 0, 0
        while pos < len(data) and k < 6:
            end = None
            try:
                for op, arg, p in pickletools.genops(data[pos:]):
                    if op.name == "STOP":
                        end = pos + p + 1
            except Exception:
                break
            if end is None:
                break
            yield f"torch-legacy{k}-" + label, data[pos:end]
            pos, k = end, k + 1


def multiplicity_programs():
    """The identical call performed two and three times through every call-making opcode (an
    interpreter that de-duplicates 'the same' call, persistent id or import loses executions)."""
    A = asm
    g = A.GLOBAL
    hit = g("vp_sink", "hit")
    calls = {
        "REDUCE": (hit, A.MARK, A.SBU("x"), A.TUPLE, A.REDUCE),
        "REDUCE-noargs": (hit, A.EMPTY_TUPLE, A.REDUCE),
        "OBJ": (A.MARK, hit, A.SBU("x"), A.OBJ),
        "INST": (A.MARK, A.SBU("x"), A.INST("vp_sink", "K")),
        "NEWOBJ": (g("vp_sink", "K"), A.EMPTY_TUPLE, A.NEWOBJ),
        "NEWOBJ_EX": (g("vp_sink", "K"), A.EMPTY_TUPLE, A.EMPTY_DICT, A.NEWOBJ_EX),
        "BINPERSID": (A.BININT1(7), A.BINPERSID),
        "BINPERSID-tuple": (A.SBU("storage"), A.BININT1(0), A.TUPLE2, A.BINPERSID),
        "BUILD": (hit, A.EMPTY_TUPLE, A.REDUCE, A.EMPTY_DICT, A.SBU("a"), A.BININT1(1), A.SETITEM, A.BUILD),
        "GLOBAL-only": (hit,),
        "STACK_GLOBAL-only": (A.SBU("vp_sink"), A.SBU("hit"), A.STACK_GLOBAL),
    }
    out = []
    for name, c in calls.items():
        for n in (2, 3):
            out.append((f"mult{n}-{name}-pop", c + (A.POP,) * 1 + (c + (A.POP,)) * (n - 2) + c + (A.STOP,)))
            tup = {2: (A.TUPLE2,), 3: (A.TUPLE3,)}[n]
            out.append((f"mult{n}-{name}-tuple", c * n + tup + (A.STOP,)))
            out.append((f"mult{n}-{name}-list", (A.EMPTY_LIST,) + sum(((c + (A.APPEND,)) for _ in range(n)), ()) + (A.STOP,)))
    return out

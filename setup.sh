#!/bin/sh
# Offline install of the monitor libraries beside the repository's interpreter.
# Idempotent; every check calls it again if .deps is missing.
set -e
cd "$(dirname "$0")"
if [ ! -f .deps/.ok ]; then
  rm -rf .deps
  PIP_NO_INDEX=1 /venv/bin/pip install --quiet --no-index --find-links /opt/veriftools/wheels \
      --target .deps icontract deal jsonschema >/dev/null 2>&1 || {
        echo "setup: pip install into .deps failed" >&2; exit 1; }
  touch .deps/.ok
fi
/venv/bin/python - <<'PY'
import sys
sys.path.insert(0, ".deps")
import icontract, deal, jsonschema
print("setup ok: icontract", icontract.__version__, "deal", deal.__version__, "jsonschema", jsonschema.__version__)
PY

"""Second harmless non-stdlib module sharing attribute names with vp_sink (shadowing cases)."""
import vp_sink


def hit(*a, **k):
    vp_sink.LOG.append(("other.hit", a, k))
    return ("other-hit-result", len(vp_sink.LOG))


class K(vp_sink.K):
    pass


class Namespace:
    """Same name and length as argparse.Namespace: byte-for-byte twin pickles that differ in the module only."""

    def __setstate__(self, state):
        vp_sink.LOG.append(("twin-ran", len(state)))
        self.__dict__.update(state)

"""Monitored child: installs the audit monitor first, then runs one shard of one property."""
import sys

from vp import monitor

monitor.install()

import importlib  # noqa: E402
import json  # noqa: E402
import os  # noqa: E402
import resource  # noqa: E402
import time  # noqa: E402
import traceback  # noqa: E402

T0 = time.time()


class Ctx:
    def __init__(self, prop, tier, seed, shard, nshards, payload):
        from vp.core import Agg
        self.prop = prop
        self.tier = tier
        self.seed = seed
        self.shard = shard
        self.nshards = nshards
        self.payload = payload
        self.agg = Agg()
        self.scratch = os.getcwd()

    def mine(self, b):
        from vp.core import shard_of
        return shard_of(b, self.nshards) == self.shard


def main():
    prop, tier, seed, shard, nshards, out, mode = sys.argv[1:8]
    payload = None
    if len(sys.argv) > 8:
        with open(sys.argv[8]) as f:
            payload = json.load(f)
    # address-space cap: inflated length fields must raise MemoryError, not take the box down
    cap = int(os.environ.get("VERIF_AS_CAP_GB", "24")) << 30
    try:
        resource.setrlimit(resource.RLIMIT_AS, (cap, cap))
    except (ValueError, OSError):
        pass
    sys.setrecursionlimit(3000)
    if os.environ.get("VERIF_LOGGING") == "DEBUG":
        # environment "debug-logging": what `logging.basicConfig(level=logging.DEBUG)` does in an application that
        # investigates a refusal - every record of every logger is formatted (into a sink that discards it)
        import logging

        class _Sink:
            def write(self, s):
                return len(s)

            def flush(self):
                pass
        logging.basicConfig(level=logging.DEBUG, stream=_Sink(), format="%(asctime)s %(name)s %(levelname)s %(message)s", force=True)
    if os.environ.get("VERIF_DUMP_AFTER"):
        # where a straggler spends its time: a traceback every N seconds on the shard's log
        import threading

        def _dump(every=int(os.environ["VERIF_DUMP_AFTER"]), main=threading.main_thread().ident):
            while True:
                time.sleep(every)
                fr = sys._current_frames().get(main)
                sys.stderr.write(f"--- after {time.time() - T0:.0f} s ---\n" + "".join(traceback.format_stack(fr)[-14:]))
                sys.stderr.flush()
        threading.Thread(target=_dump, daemon=True, name="vp-dump").start()
    ctx = Ctx(prop, tier, int(seed), int(shard), int(nshards), payload)
    cov = None
    if int(shard) == int(nshards) - 1 and mode == "run" and os.environ.get("VERIF_NO_COVERAGE") != "1":
        # line coverage of the repository's sources as seen from one shard (evidence of reach only)
        try:
            import coverage
            os.environ.setdefault("COVERAGE_CORE", "sysmon")
            cov = coverage.Coverage(data_file=None, include=[os.path.join(os.environ.get("VERIF_REPO", "/repo"), "fickling", "*")])
            cov.start()
        except Exception:
            cov = None
    mod = importlib.import_module("vp.props." + prop.lower())
    try:
        if mode == "replay":
            mod.replay(ctx, payload)
        else:
            mod.run_shard(ctx)
    except BaseException:
        ctx.agg.inconclusive.append("child crashed: " + traceback.format_exc()[-1500:])
    if cov is not None:
        try:
            cov.stop()
            rep = {}
            repo_f = os.path.join(os.environ.get("VERIF_REPO", "/repo"), "fickling")
            for fn in sorted(os.listdir(repo_f)):
                if fn.endswith(".py"):
                    try:
                        _, stmts, _, missing, _ = cov.analysis2(os.path.join(repo_f, fn))
                    except Exception:
                        continue
                    if stmts and len(missing) < len(stmts):
                        rep[fn] = f"{len(stmts) - len(missing)}/{len(stmts)} statements"
            ctx.agg.notes.append({"line_coverage_of_repo_in_last_shard": rep})
        except Exception as e:
            ctx.agg.notes.append({"coverage_error": repr(e)[:100]})
    ctx.agg.hist("shard_wall_seconds_by_environment", os.environ.get("VERIF_ENVIRONMENT", "default"), int(time.time() - T0))
    ctx.agg.hist("evaluations_by_environment", os.environ.get("VERIF_ENVIRONMENT", "default"), ctx.agg.evaluations)
    if monitor.RECORDER_HITS:
        ctx.agg.notes.append({"recorder_hits": monitor.RECORDER_HITS[:5]})
    with open(out, "w") as f:
        json.dump(ctx.agg.to_json(), f, default=str)


if __name__ == "__main__":
    main()

"""C07 - The safe ML environment mediates every global, including in nested unpicklings."""
import io
import itertools
import pickle
import _pickle

from vp import asm, monitor
from vp.core import h

ORIG = (pickle.load, pickle.loads, _pickle.load, _pickle.loads)
ORIG_DUMPS = pickle.dumps

CONFIG = dict(
    level="exploration",
    rule=("payloads = wrapper chains of depth 0..3 over {torch.storage._load_from_bytes (allow-listed), "
          "pickle.loads, _pickle.loads, torch.load (user-added)} around an inner payload that is a bare pickle (the final "
          "global spelled with GLOBAL, INST, STACK_GLOBAL, through REDUCE or OBJ), "
          "a legacy stacked PyTorch container or a zip PyTorch container and ends in a global that is "
          "allow-listed, user-added or not allow-listed (vp_sink.hit); loaded through all four hooked entry "
          "points under four sets of explicit additions (quick: seeded sample of the cross product, thorough: "
          "all).  While the hooked call is on the stack every pickle.find_class audit event - raised by "
          "CPython inside Unpickler.find_class of *any* unpickler instance - is recorded together with the "
          "sink log.  A case is one distinct (payload bytes, entry point, additions); non-trivial = the chain "
          "contains a global outside BASE + additions, or nesting depth >= 1."),
    assumptions=[
        "BASE is the deep snapshot of ML_ALLOWLIST at import; the audit event is independent of fickling's bookkeeping",
        "an UnsafeFileError anywhere in the __cause__/__context__ chain counts as the unsafe-file error",
        "payload bytes are built before arming; nothing of the harness goes through pickle while armed",
        "every payload is harmless if executed (sink calls and stdlib constructors only)",
    ],
    min_nontrivial={"quick": 200, "thorough": 3000},
    nshards={"quick": 4, "thorough": 8},
    timeout={"quick": 900, "thorough": 5400},
    required_counters=("hooked_loads", "find_class_events_seen", "blocked_loads", "allowed_loads"),
)

WRAPPERS = {
    "tlb": ("torch.storage", "_load_from_bytes"),
    "pl": ("pickle", "loads"),
    "cpl": ("_pickle", "loads"),
    "tl": ("torch", "load"),
    # the same loaders with a BUILD in front of the call: state is plain data, applying it resolves no global, yet it
    # sets attributes on the (hooked) function object the pickle is about to call
    "pl+kw": ("pickle", "loads"),
    "cpl+kw": ("_pickle", "loads"),
    "pl+dict": ("pickle", "loads"),
}
_WIDE = ["vp_sink.hit", "string.Formatter", "decimal.Decimal", "collections.Counter", "pickle.loads", "_pickle.loads"]
STATES = {
    "+kw": ORIG_DUMPS((None, {"__kwdefaults__": {"also_allow": _WIDE}, "__defaults__": (_WIDE,)}), 2)[2:-1],
    "+dict": ORIG_DUMPS({"also_allow": _WIDE, "allowlist": None, "__wrapped__": None}, 2)[2:-1],
}
ADDSETS = {
    "none": [],
    "loads": ["pickle.loads", "_pickle.loads"],
    "torchload": ["torch.load"],
    "counter": ["collections.Counter", "pickle.loads"],
}
# what else is armed on top of the ML environment while the probe runs
OVERLAYS = ["none", "global-check", "context", "reactivated", "preloaded", "failed-import-first", "failed-reactivation", "reactivated-after-use", "direct-instance-first"]   # preloaded: an earlier activation that
#                                                   allowed everything really loaded the same payload, then was removed      # reactivated: another activation (with
#                                                                     other additions) precedes, not removed

FINALS = {
    "stdlib-not-listed": ("decimal", "Decimal"),      # rated LIKELY_SAFE by the static check, not allow-listed
    "allowed": ("collections", "OrderedDict"),
    "added": ("collections", "Counter"),
    "forbidden": ("vp_sink", "hit"),
    "stdlib-not-listed-2": ("string", "Formatter"),
    # another member of a module the caller's additions introduced (pickle.loads added -> pickle.Unpickler is not)
    "sibling-of-added": ("pickle", "Unpickler"),
    "sibling-of-added-2": ("_pickle", "load"),   # no byte of either name is an opcode that imports
    # protocol >= 4 resolves a dotted name as an attribute path: these start at allow-listed names
    "dotted-allowed-prefix": ("collections", "OrderedDict.fromkeys"),
    "dotted-globals": ("argparse", "Namespace.__init__.__globals__"),
    # members of an imported, not allow-listed module that *report* an allow-listed identity (__module__ / __qualname__ of
    # collections.OrderedDict): a wrapper made with functools.wraps, and a plain re-export
    "impostor": ("vp_sink", "masquerade"),
    "reexport": ("vp_sink", "OrderedDictAlias"),
}
BARE_SPELLINGS = ("bare", "bare-inst", "bare-inst-proto2", "bare-sg-reduce", "bare-sg-obj", "bare-global-obj")
ENTRIES = ["pickle.load", "pickle.loads", "_pickle.load", "_pickle.loads"]


def reduce_bytes(module, name, arg_bytes):
    return b"c" + module.encode() + b"\n" + name.encode() + b"\n" + asm.BINBYTES(arg_bytes).data + b"\x85R"


def inner_payload(kind, final, torch):
    """bytes of the innermost container, whose unpickling resolves (and calls) the final global."""
    m, n = FINALS[final]
    import importlib
    import functools
    target = functools.reduce(getattr, n.split("."), importlib.import_module(m))

    class P:
        def __reduce__(self):
            return (target, ("nested",)) if final == "forbidden" else (target, ())
    if final.startswith("dotted"):
        if kind != "bare":
            return None
        # STACK_GLOBAL / GLOBAL with a dotted name under PROTO 4; only resolved, never called
        sg = b"\x80\x04\x8c" + bytes([len(m)]) + m.encode() + b"\x8c" + bytes([len(n)]) + n.encode() + b"\x93."
        return sg
    if kind in BARE_SPELLINGS and kind != "bare":
        # the same global through the other global-resolving opcodes
        args = b"S'nested'\n" if final == "forbidden" else b""
        mb, nb = m.encode(), n.encode()
        if kind == "bare-inst":
            return b"(" + args + b"i" + mb + b"\n" + nb + b"\n."
        if kind == "bare-inst-proto2":
            return b"\x80\x02(" + args + b"i" + mb + b"\n" + nb + b"\n."
        sg = b"\x8c" + bytes([len(mb)]) + mb + b"\x8c" + bytes([len(nb)]) + nb + b"\x93"
        if kind == "bare-sg-reduce":
            return b"\x80\x04" + sg + b"(" + args + b"tR."
        if kind == "bare-sg-obj":
            return b"\x80\x04(" + sg + args + b"o."
        if kind == "bare-global-obj":
            return b"(c" + mb + b"\n" + nb + b"\n" + args + b"o."
        raise KeyError(kind)
    if kind == "bare":
        return b"c" + m.encode() + b"\n" + n.encode() + b"\n" + (b"(S'nested'\ntR." if final == "forbidden" else b")R.")
    if final in ("impostor", "reexport"):
        return None       # (a pickler writes such an object under the identity it reports: only hand-written spellings name it)
    buf = io.BytesIO()
    if kind == "legacy":
        torch.save(P(), buf, _use_new_zipfile_serialization=False)
    else:
        torch.save(P(), buf)
    return buf.getvalue()


def build(chain, inner):
    """Wrap `inner` bytes in the wrapper chain (outermost first); returns the top-level pickle."""
    data = inner
    for wname in reversed(chain):
        m, n = WRAPPERS[wname]
        if wname == "tl":
            # torch.load(io.BytesIO(data)) - BytesIO is in BASE
            body = b"ctorch\nload\n" + b"c_io\nBytesIO\n" + asm.BINBYTES(data).data + b"\x85R" + b"\x85R"
        elif "+" in wname:
            body = (b"c" + m.encode() + b"\n" + n.encode() + b"\n" + STATES[wname[wname.index("+"):]] + b"b" +
                    asm.BINBYTES(data).data + b"\x85R")
        else:
            body = reduce_bytes(m, n, data)
        data = b"\x80\x02" + body + b"."
    return data


def globals_in(chain, kind, final, torch_container_globals):
    gs = []
    for wname in chain:
        gs.append(WRAPPERS[wname])
        if wname == "tl":
            gs.append(("_io", "BytesIO"))
    gs.append(FINALS[final])
    return gs


def cases(ctx):
    chains = [()]
    base_wrappers = sorted(w for w in WRAPPERS if "+" not in w)
    for d in (1, 2, 3):
        chains += list(itertools.product(sorted(WRAPPERS) if d < 3 else base_wrappers, repeat=d))
    allc = []
    for chain in chains:
        for kind in BARE_SPELLINGS + ("legacy", "zip"):
            if kind not in BARE_SPELLINGS and (not chain or chain[-1] not in ("tlb", "tl")):
                continue        # a torch container is only unpickled by a torch loader
            for final in FINALS:
                for entry in ENTRIES:
                    for aname in ADDSETS:
                        for overlay in OVERLAYS:
                            if overlay != "none" and (len(chain) > 1 or aname not in ("none", "loads")):
                                continue
                            allc.append((chain, kind, final, entry, aname, overlay))
    if ctx.tier == "quick":
        rng = asm.rng_for(ctx.seed, "c07")
        keep = [c for c in allc if len(c[0]) <= 1]
        rest = [c for c in allc if len(c[0]) > 1]
        allc = [c for c in keep if rng.random() < 0.55] + rng.sample(rest, 500)
    return allc


def in_allow(base, adds, g):
    m, n = g
    return (m in base and n in base[m]) or f"{m}.{n}" in adds


def run_case(ctx, mods, base, cache, chain, kind, final, entry, aname, overlay="none"):
    ml, hook, U, torch = mods
    import fickling
    import vp_sink
    agg = ctx.agg
    adds = ADDSETS[aname]
    ck = (kind, final)
    if ck not in cache:
        cache[ck] = inner_payload(kind, final, torch)
    if cache[ck] is None:
        return
    data = build(chain, cache[ck])
    key = h(data + entry.encode() + aname.encode() + overlay.encode())
    chain_globals = globals_in(chain, kind, final, None)
    all_ok = all(in_allow(base, adds, g) for g in chain_globals)
    nontrivial = (not all_ok) or len(chain) >= 1
    if not agg.case(key, nontrivial, {"chain": list(chain), "inner": kind, "final": final, "entry": entry,
                                      "additions": adds, "overlay": overlay, "expect": "allowed" if all_ok else "blocked"}):
        return
    w = {"chain": list(chain), "inner": kind, "final": final, "entry": entry, "additions_name": aname, "overlay": overlay}
    del vp_sink.LOG[:]
    in_force = False
    if overlay == "reactivated":
        hook.activate_safe_ml_environment(also_allow=["vp_sink.hit", "collections.Counter", "pickle.loads",
                                                      "_pickle.loads", "torch.load", "decimal.Decimal"])
    if overlay == "reactivated-after-use" and adds:
        # a service that re-activates per model: rounds of activations that are used and never removed, each handed a
        # freshly built list the way callers do (`also_allow=[...]`), all of the same length as the case's own additions
        # but naming other globals - whatever is remembered per list object / address / length / position cannot stand in
        # for the additions now in force
        pool = ["vp_sink.hit", "decimal.Decimal", "string.Formatter", "collections.Counter", "torch.load", "pickle.loads", "_pickle.loads"]

        def fresh(names):
            return [n for n in names]
        n = len(adds)
        for rnd in range(3):
            for names in (pool[:n], pool[n:2 * n] or pool[-n:], adds):
                hook.activate_safe_ml_environment(also_allow=fresh(names))
                try:
                    pickle.loads(b"K\x01.")
                    pickle.load(io.BytesIO(b"]K\x02a."))
                except BaseException:
                    pass
        agg.count("reactivations_after_use")
        in_force = True          # the last activation of the last round is the case's own
    if overlay == "direct-instance-first":
        # before anything is armed, the application has used the allow-listing unpickler directly, with additions that
        # name the loader functions themselves: whatever those names resolved to then (the stock functions) must not be
        # what a later, armed environment calls for a nested payload
        for blob in (b"cpickle\nloads\n.", b"c_pickle\nloads\n.", b"cpickle\nload\n.", b"c_pickle\nload\n.",
                     b"\x80\x04\x8c\x06pickle\x8c\x05loads\x93.", b"ctorch.storage\n_load_from_bytes\n."):
            try:
                ml.FicklingMLUnpickler(io.BytesIO(blob), also_allow=["pickle.loads", "_pickle.loads", "pickle.load", "_pickle.load",
                                                                     "torch.storage._load_from_bytes"]).load()
                agg.count("direct_instances_before_arming")
            except BaseException:
                pass
    if overlay == "preloaded":
        wide = ["vp_sink.hit", "collections.Counter", "pickle.loads", "_pickle.loads", "torch.load", "decimal.Decimal",
                "string.Formatter"]
        hook.activate_safe_ml_environment(also_allow=wide)
        try:
            for fn_ in (pickle.loads, _pickle.loads):
                fn_(data)
            pickle.load(io.BytesIO(data))
            agg.count("preloads_done")
        except BaseException:
            agg.count("preloads_raised")
        finally:
            hook.remove_hook()
            pickle.load, pickle.loads, _pickle.load, _pickle.loads = ORIG
            del vp_sink.LOG[:]
    if overlay == "failed-import-first":
        # the caller's additions also name globals that cannot be imported (module not installed, attribute gone);
        # loads that fail on them come first - then the case's load, in the same activation
        adds = list(adds) + ["vp_not_installed_mod.thing", "collections.NoSuchThingHere", "json.nonexistent_attr"]
    if not in_force:
        hook.activate_safe_ml_environment(also_allow=list(adds) if adds else None)
    if overlay == "failed-import-first":
        for blob in (b"cvp_not_installed_mod\nthing\n.", b"ccollections\nNoSuchThingHere\n.", b"\x80\x04\x8c\x04json\x8c\x10nonexistent_attr\x93.",
                     b"cvp_not_installed_mod\nthing\n)R."):
            for fn_ in (pickle.loads, _pickle.loads):
                try:
                    fn_(blob)
                except BaseException:
                    agg.count("failed_imports_before_the_case")
            try:
                pickle.load(io.BytesIO(blob))
            except BaseException:
                pass
    if overlay == "failed-reactivation":
        # a second activation whose additions are malformed after a few well-formed, not allow-listed ones; if it is
        # refused the first environment is still the one in force - with its own additions only
        try:
            hook.activate_safe_ml_environment(also_allow=["vp_sink.hit", "string.Formatter", "decimal.Decimal", "pickle.Unpickler",
                                                          "collections.Counter", "nodot", None, 7])
            refused = False
        except BaseException:
            refused = True
            agg.count("reactivations_refused")
        if not refused:
            # accepted (validation happens at load time on this tree): put the case's own environment back
            hook.activate_safe_ml_environment(also_allow=list(adds) if adds else None)
    cm = None
    try:
        if overlay == "global-check":
            fickling.always_check_safety()
        elif overlay == "context":
            cm = fickling.check_safety()
            cm.__enter__()
        fn = {"pickle.load": pickle.load, "pickle.loads": pickle.loads, "_pickle.load": _pickle.load,
              "_pickle.loads": _pickle.loads}[entry]
        with monitor.Recording() as rec:
            try:
                if entry.endswith("loads"):
                    fn(data)
                else:
                    fn(io.BytesIO(data))
                outc = ("ret", None)
            except BaseException as e:
                outc = ("exc", e)
    finally:
        if cm is not None:
            try:
                cm.__exit__(None, None, None)
            except Exception:
                pass
        hook.remove_hook()
        pickle.load, pickle.loads, _pickle.load, _pickle.loads = ORIG
    sink = list(vp_sink.LOG)
    del vp_sink.LOG[:]
    agg.count("hooked_loads")
    finds = [s for n, s in rec.events if n == "pickle.find_class"]
    agg.count("find_class_events_seen", len(finds))
    forbidden = [g for g in finds if not in_allow(base, adds, tuple(g))]
    unsafe = False
    if outc[0] == "exc":
        x, k = outc[1], 0
        while x is not None and k < 8:
            if isinstance(x, U):
                unsafe = True
                break
            x, k = (x.__cause__ or x.__context__), k + 1
    agg.hist("outcomes", ("returned" if outc[0] == "ret" else ("UnsafeFileError" if unsafe else type(outc[1]).__name__)))
    host = next((wn for wn in reversed(chain) if wn in ("tlb", "tl")), None)
    hostname = {"tlb": "_load_from_bytes", "tl": "torch.load", None: "direct"}[host]
    if forbidden or sink:
        agg.violation(f"nested-unmediated:{hostname}:{kind}" if host and kind not in BARE_SPELLINGS else f"unmediated:{hostname}:{kind}",
                      f"while the safe ML environment was active, globals outside the allowlist were resolved "
                      f"{forbidden[:3]} / sink ran {sink[:1]} (outcome: {agg_out(outc, unsafe)})",
                      dict(w, forbidden=[list(g) for g in forbidden[:4]], sink=repr(sink[:2])))
        return
    if all_ok:
        agg.count("allowed_loads")
        if unsafe and overlay == "none":
            agg.violation(f"over-blocked:{hostname}:{kind}",
                          "every global of the chain is in BASE + additions but the load was aborted with the unsafe-file error", w)
        return
    agg.count("blocked_loads")
    # the first global outside the allowlist is certainly reached when everything before it is an allowed
    # wrapper that unpickles its argument with full unpickling (not torch.load's weights-only default)
    seq = [WRAPPERS[wn] for wn in chain] + [FINALS[final]]
    first_bad = next(i for i, g in enumerate(chain_globals_of(chain, final)) if not in_allow(base, adds, g[1]))
    prefix = chain_globals_of(chain, final)[:first_bad]
    certain = all(tag in ("tlb", "pl", "cpl", "pl+kw", "cpl+kw", "pl+dict") for tag, _ in prefix) and (
        chain_globals_of(chain, final)[first_bad][0] != "final" or kind in BARE_SPELLINGS)
    if certain:
        agg.count("certainly_reached_forbidden")
        if outc[0] == "ret":
            agg.violation(f"returned-with-forbidden-global:{hostname}:{kind}",
                          "the load returned normally although unpickling certainly reaches a global outside the allowlist", w)
        elif not unsafe:
            agg.violation(f"wrong-error-for-forbidden-global:{hostname}:{kind}",
                          f"a global outside the allowlist is reached but the load raised {type(outc[1]).__name__}, not the unsafe-file error", w)


def chain_globals_of(chain, final):
    out = []
    for wn in chain:
        out.append((wn, WRAPPERS[wn]))
        if wn == "tl":
            out.append(("io", ("_io", "BytesIO")))
    out.append(("final", FINALS[final]))
    return out


def agg_out(outc, unsafe):
    return "returned" if outc[0] == "ret" else ("UnsafeFileError" if unsafe else type(outc[1]).__name__)


def setup():
    import copy
    import torch
    import fickling  # noqa: F401
    import fickling.ml as ml
    import fickling.hook as hook
    from fickling.exception import UnsafeFileError
    return (ml, hook, UnsafeFileError, torch), copy.deepcopy(ml.ML_ALLOWLIST)


def run_shard(ctx):
    mods, base = setup()
    cache = {}
    for i, c in enumerate(cases(ctx)):
        if i % ctx.nshards == ctx.shard:
            run_case(ctx, mods, base, cache, *c)


def replay(ctx, payload):
    mods, base = setup()
    c = payload["case"]
    run_case(ctx, mods, base, {}, tuple(c["chain"]), c["inner"], c["final"], c["entry"], c["additions_name"],
             c.get("overlay", "none"))

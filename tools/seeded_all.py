#!/usr/bin/env python3
"""Run every kept seeded change against its property's check; prints one line each and a summary."""
import glob
import json
import os
import subprocess
import sys

ROOT = os.path.dirname(os.path.dirname(os.path.abspath(__file__)))
rows = []
for d in sorted(glob.glob(os.path.join(ROOT, "seeded", "C*"))):
    meta = json.load(open(os.path.join(d, "meta.json")))
    prop = os.path.basename(d)[:3]
    if str(meta.get("assessment", "")).lower().startswith("not counted"):
        print("NOT-COUNTED " + os.path.basename(d), meta["assessment"][:120], flush=True)
        continue
    env = dict(os.environ)
    if "base_rev" in meta:
        env["SEED_BASE_REV"] = meta["base_rev"].split()[0]
    r = subprocess.run([sys.executable, os.path.join(ROOT, "tools", "seeded.py"), "check", d, prop], env=env,
                       capture_output=True, text=True)
    first = [ln.strip() for ln in r.stdout.splitlines() if ln.strip().startswith("[")][:1]
    ok = r.returncode == 0
    rows.append((os.path.basename(d), ok))
    print(("CAUGHT " if ok else "MISSED ") + os.path.basename(d), (first[0][:150] if first else ""), flush=True)
print(f"{sum(1 for _, ok in rows if ok)}/{len(rows)} caught")
sys.exit(0 if all(ok for _, ok in rows) else 1)

"""One pass over one pickle program: fickling's symbolic interpreter in lockstep with the
reference VM, then the decompiled program executed under the same inert stubs.  C03, C05, C09
(and C04/C18 for ground truth) read different fields of the same observation."""
import ast
import pickletools

from vp import refvm

_fickle = None


def fickle():
    global _fickle
    if _fickle is None:
        import fickling.fickle as f
        _fickle = f
    return _fickle


class Obs:
    __slots__ = ("data", "ops", "parse_err", "ref_ok", "ref_err", "ref_log", "ref_value", "ref_steps",
                 "fick_ok", "fick_err", "fick_stage", "fick_steps", "lock_div", "lock_steps",
                 "src", "exec_err", "dec_log", "dec_value", "missing", "ref_canon", "dec_canon",
                 "cyclic", "value_equal", "n_ref_calls", "n_ref_imports", "has_markmemo", "module", "ran_without_result")

    def __init__(self, data):
        self.data = data
        for s in self.__slots__[1:]:
            setattr(self, s, None)


MARK_MEMO_OPS = {"MARK", "PUT", "BINPUT", "LONG_BINPUT", "GET", "BINGET", "LONG_BINGET", "MEMOIZE",
                 "POP_MARK"}


def fick_shape(interp, MarkObject):
    st = interp.stack
    marks = [i for i, x in enumerate(st) if isinstance(x, MarkObject)]
    return len(st), marks, set(interp.memory)


class _MemoWatch:
    """Memo key sets only ever grow: the full comparison is needed only when a size changed."""

    def __init__(self):
        self.sizes = (-1, -1)
        self.equal = True

    def same(self, fmem, vmem):
        sizes = (len(fmem), len(vmem))
        if sizes != self.sizes:
            self.sizes = sizes
            self.equal = sizes[0] == sizes[1] and set(fmem) == set(vmem)
        return self.equal


def observe(data, want_exec=True):
    f = fickle()
    o = Obs(data)
    try:
        p = f.Pickled.load(data)
        o.ops = [op.info.name for op in p]
    except Exception as e:
        o.parse_err = e
        p = None
    vm = refvm.RefVM(data)
    interp = f.Interpreter(p) if p is not None else None
    fick_alive = interp is not None
    vm_alive = True
    fick_done = False
    o.fick_steps = 0
    o.lock_steps = 0
    memo_watch = _MemoWatch()
    i = 0
    while (vm_alive and not vm.done) or (fick_alive and not fick_done):
        stepped_vm = stepped_f = False
        if vm_alive and not vm.done:
            try:
                vm.step()
                stepped_vm = True
            except Exception as e:
                o.ref_err = e
                vm_alive = False
        if fick_alive and not fick_done:
            try:
                if i >= len(p):
                    fick_done = True
                else:
                    before = (len(interp.stack), len(interp.memory), len(interp.module_body),
                              interp.stack[-1] if len(interp.stack) else None)
                    opc = interp.step()
                    stepped_f = True
                    o.fick_steps += 1
                    if opc.info.name == "STOP":
                        fick_done = True
            except StopIteration:
                fick_done = True
            except RecursionError as e:
                o.fick_err, o.fick_stage, fick_alive = e, "interpret", False
            except Exception as e:
                o.fick_err, o.fick_stage, fick_alive = e, "interpret", False
        if stepped_vm and stepped_f and o.lock_div is None:
            o.lock_steps += 1
            st = interp.stack
            d, vd = len(st), vm.depth()
            vmk = vm.marks()
            m = [j for j, x in enumerate(st) if isinstance(x, f.MarkObject)] if (vmk or d != vd or d < 64) else \
                ([] if not any(isinstance(x, f.MarkObject) for x in st) else [j for j, x in enumerate(st) if isinstance(x, f.MarkObject)])
            if d != vd or m != vmk or not memo_watch.same(interp.memory, vm.memo):
                k, vk = set(interp.memory), vm.memo_keys()
                o.lock_div = {"index": i, "op": o.ops[i] if o.ops and i < len(o.ops) else "?",
                              "fick": [d, m, sorted(k)], "vm": [vd, vmk, sorted(vk)],
                              "fick_noop": before == (len(interp.stack), len(interp.memory),
                                                      len(interp.module_body),
                                                      interp.stack[-1] if len(interp.stack) else None)}
        i += 1
        if i > 200000:
            break
    o.ref_ok = vm.done and o.ref_err is None
    o.ref_log = vm.log
    o.ref_value = vm.value
    o.ref_steps = vm.nsteps
    o.n_ref_calls = sum(1 for e in vm.log.events if e[0] in ("call", "setstate", "pers"))
    o.n_ref_imports = sum(1 for e in vm.log.events if e[0] == "import")
    o.has_markmemo = bool(o.ops) and any(n in MARK_MEMO_OPS for n in o.ops)
    if parse_ok_and_done(o, fick_alive, fick_done):
        try:
            o.module = interp.to_ast()
            o.src = ast.unparse(o.module)
            o.fick_ok = True
        except RecursionError as e:
            o.fick_err, o.fick_stage, o.fick_ok = e, "unparse", False
        except Exception as e:
            o.fick_err, o.fick_stage, o.fick_ok = e, "unparse", False
    else:
        o.fick_ok = False
        if o.fick_err is None:
            o.fick_err, o.fick_stage = o.parse_err, "parse"
    if want_exec and o.fick_ok and o.ref_ok:
        run_decompiled(o)
    return o


def parse_ok_and_done(o, fick_alive, fick_done):
    return o.parse_err is None and fick_alive and fick_done


def run_decompiled(o, result_name="result"):
    try:
        log, val, _g = refvm.exec_decompiled(o.src, result_name)
    except RecursionError as e:
        o.exec_err = e
        return
    except BaseException as e:
        o.exec_err = e
        if getattr(e, "vp_completed", False):
            o.dec_log = e.vp_log
            o.missing = refvm.missing_events(o.ref_log, e.vp_log)
            o.ran_without_result = True
        return
    o.dec_log = log
    o.dec_value = val
    o.missing = refvm.missing_events(o.ref_log, log)
    c1 = refvm.Canon()
    c2 = refvm.Canon()
    try:
        o.ref_canon = c1(o.ref_value)
        o.dec_canon = c2(val)
    except RecursionError as e:
        o.exec_err = e
        return
    o.cyclic = c1.cyclic or c2.cyclic
    o.value_equal = o.ref_canon == o.dec_canon


def _is_node(x):
    return isinstance(x, tuple) and bool(x) and isinstance(x[0], str)


def first_diff(a, b, path=(), na=None, nb=None):
    """Path and the two innermost differing canonical *nodes* of two canonical forms."""
    if a == b:
        return None
    if _is_node(a) and _is_node(b):
        na, nb = a, b
    if isinstance(a, tuple) and isinstance(b, tuple) and len(a) == len(b) and (
            not _is_node(a) or a[0] == b[0]):
        for i, (x, y) in enumerate(zip(a, b)):
            r = first_diff(x, y, path + (i,), na, nb)
            if r is not None:
                return r
    if _is_node(a) and _is_node(b):
        return path, a, b
    return path, na if na is not None else a, nb if nb is not None else b


def tag(c):
    if isinstance(c, tuple) and c:
        if c[0] == "k":
            return "const:" + c[1]
        if c[0] in ("list", "tuple", "dict", "set", "frozenset"):
            return f"{c[0]}[{len(c[1])}]"
        if c[0] == "obj":
            return f"obj[muts={len(c[2])}]"
        return str(c[0])
    return type(c).__name__


def err_name(e):
    return type(e).__name__ if e is not None else None


def opcode_names(data):
    try:
        return [op.name for op, _, _ in pickletools.genops(data)]
    except Exception:
        return None


def sdump(node, _depth=0):
    """Structural dump of an AST that (unlike ast.dump) looks through tuples and nested nodes in
    Constant values and never prints memory addresses.  One-shot iterators are reported as such
    without being consumed."""
    if _depth > 400:
        return "<deep>"
    if isinstance(node, ast.AST):
        fields = []
        for name in node._fields:
            if name in ("lineno", "col_offset", "end_lineno", "end_col_offset", "kind", "type_comment"):
                continue
            if hasattr(node, name):
                fields.append(f"{name}={sdump(getattr(node, name), _depth + 1)}")
        return f"{type(node).__name__}({', '.join(fields)})"
    if isinstance(node, (list, tuple)):
        return "[" + ", ".join(sdump(x, _depth + 1) for x in node) + "]"
    if isinstance(node, (str, bytes, int, float, complex, bool, type(None), type(Ellipsis))):
        return repr(node)
    return f"<{type(node).__name__}>"


_SCHEME = __import__("re").compile(r"^(_var\d+|result\d*|UNPICKLER)$")


def scheme_name_collision(o):
    """The pickle names a global whose attribute name is one of the decompiler's own identifiers
    (_varN, result, UNPICKLER): the bare name in the decompile is captured by fickling's variable."""
    return any(ev[0] == "import" and _SCHEME.match(ev[2]) for ev in o.ref_log.events) or any(
        ev[0] == "call" and ev[1][0] == "glob" and _SCHEME.match(ev[1][2]) for ev in o.ref_log.events)


def same_import_sequence(o):
    """The decompile performs the VM's imports, each of them, in the VM's order.  The recorded bare-name shadowing
    presupposes this: it is what happens although every import is there - a decompile that drops or reorders an
    import is a different defect."""
    try:
        ref = [(e[1], e[2]) for e in o.ref_log.events if e[0] == "import" and e[1] != "builtins"]
        dec = [(e[1], e[2]) for e in o.dec_log.events if e[0] == "import" and e[1] != "builtins"]
    except Exception:
        return True
    return ref == dec


def name_not_nfkc_stable(o):
    """The pickle names a global (or keyword) whose spelling changes under NFKC: the decompile, read back as source text,
    denotes the folded name (Python's parser normalises identifiers), the VM took the original."""
    import unicodedata
    for ev in o.ref_log.events:
        if ev[0] == "import":
            for s_ in (ev[1], ev[2]):
                if isinstance(s_, str) and not s_.isascii() and unicodedata.normalize("NFKC", s_) != s_:
                    return True
    return False

#!/usr/bin/env python3
"""Run checks against a scratch copy of /repo: either an older revision (--rev) or the current
tree with a patch applied (--patch).  The copy lives outside /repo and /verif and is removed."""
import argparse
import os
import shutil
import subprocess
import sys
import tempfile

ROOT = os.path.dirname(os.path.dirname(os.path.abspath(__file__)))


def main():
    ap = argparse.ArgumentParser()
    ap.add_argument("--rev")
    ap.add_argument("--patch")
    ap.add_argument("--tier", default="quick")
    ap.add_argument("--tests", action="store_true", help="also run the fast part of the repo's test-suite")
    ap.add_argument("props", nargs="+")
    a = ap.parse_args()
    d = tempfile.mkdtemp(prefix="vp-mut-")
    try:
        if a.rev:
            subprocess.run(f"git -C /repo archive {a.rev} | tar -x -C {d}", shell=True, check=True)
        else:
            subprocess.run(f"git -C /repo archive HEAD | tar -x -C {d}", shell=True, check=True)
        if a.patch:
            r = subprocess.run(["git", "apply", "--unsafe-paths", f"--directory={d}", os.path.abspath(a.patch)],
                               cwd="/", capture_output=True, text=True)
            if r.returncode != 0:
                r = subprocess.run(["patch", "-p1", "-d", d, "-i", os.path.abspath(a.patch)], capture_output=True, text=True)
                if r.returncode != 0:
                    print("PATCH FAILED", r.stdout, r.stderr)
                    return 3
        if a.tests:
            r = subprocess.run(["/venv/bin/python", "-m", "pytest", "-q", "-p", "no:cacheprovider", "-x",
                                "test/test_pickle.py", "test/test_crashes.py", "test/test_hook.py",
                                "test/test_unpickler.py"], cwd=d, env=dict(os.environ, PYTHONPATH=d),
                               capture_output=True, text=True)
            print("TESTS:", r.stdout.strip().splitlines()[-1] if r.stdout.strip() else r.stderr[-300:])
        rc = 0
        env = dict(os.environ, VERIF_REPO=d, VERIF_NO_EVIDENCE="1")
        for p in a.props:
            r = subprocess.run([os.path.join(ROOT, "check"), p, "--tier", a.tier], env=env, capture_output=True, text=True)
            tail = [ln for ln in (r.stdout + r.stderr).splitlines() if ln.strip() and "conda" not in ln]
            viol = [ln for ln in tail if ln.startswith("  [")]
            print(f"== {p}: exit {r.returncode}")
            for ln in viol[:8]:
                print("   ", ln[:260])
            for ln in tail[-2:]:
                if not ln.startswith("VIOLATION"):
                    print("   ", ln[:260])
            rc = max(rc, r.returncode)
        return rc
    finally:
        shutil.rmtree(d, ignore_errors=True)


if __name__ == "__main__":
    sys.exit(main())

"""C18 - CLI on stacked pickles: injection is local, decompilation is one valid Python program."""
import ast
import contextlib
import io
import os
import pickle
import pickletools
import subprocess
import sys

from vp import asm, gen, refvm
from vp.core import h

CONFIG = dict(
    level="exploration",
    rule=("stacks of 1..5 pickles (generated values at several protocols, instances, vocabulary call programs "
          "that create variables) x every --inject-target 0..n (n = one past the end) x {--run-last} x "
          "{--replace-result} x {file, standard input (seekable BytesIO and non-seekable wrapper)}, CLI run "
          "in-process; output re-parsed as a stack and compared part by part with the input and with the "
          "library's own injection applied to part k; plain CLI decompilation of every stack is compiled, "
          "its Store names counted, and executed under inert stubs against the reference VM's value of every "
          "part.  The parent additionally runs the real `python -m fickling` in a subprocess with a pipe on "
          "stdin and compares with the file path variant.  A case is one distinct (stack bytes, options); "
          "non-trivial = n >= 2 or the stack creates variables."),
    assumptions=[
        "the library's insert_python_eval with the same flags defines what 'the injection applied' means (C08 judges it)",
        "parts of the stack are chosen among pickles fickling can decompile and whose global names are identifiers",
    ],
    min_nontrivial={"quick": 600, "thorough": 10000},
    nshards={"quick": 8, "thorough": 16},
    timeout={"quick": 600, "thorough": 3600},
    required_counters=("emitted_target_run_on_reference_vm", "framing_checked", "inject_runs", "out_of_range_runs", "decompile_runs", "results_compared", "subprocess_runs"),
)

INJ = "__import__('vp_sink').hit('CLI')"
# code strings around the length boundaries of the text opcodes, counted in characters and in UTF-8 bytes
INJS = [INJ, "len('" + "\u00e9" * 200 + "')", "len('" + "x" * 250 + "')", "len('" + "x" * 251 + "')", "len('" + "\u4e2d" * 84 + "')",
        "len('" + "\U0001f600" * 63 + "')", "len('" + "y" * 70000 + "')", "1", "'\u00e9'"]


class NonSeekable(io.RawIOBase):
    def __init__(self, data):
        self._b = io.BytesIO(data)

    def readable(self):
        return True

    def seekable(self):
        return False

    def readinto(self, b):
        return self._b.readinto(b)


class FakeStdin:
    def __init__(self, data, seekable):
        self.buffer = io.BytesIO(data) if seekable else NonSeekable(data)


class FakeStdout(io.StringIO):
    def __init__(self):
        super().__init__()
        self.buffer = io.BytesIO()


def part_pool(ctx):
    import vp_sink
    k = vp_sink.K()
    k.a = (1, 2)
    vals = [[1, 2], {"a": [1]}, k, [vp_sink.KReduce(3), vp_sink.KReduce(4)], "txt", (None, 2.5), {1, 2},
            vp_sink.KSetState(), [k, k], vp_sink.KNewArgs(1, "two")]
    pool = []
    for v in vals:
        for proto in (0, 2, 4):
            pool.append(pickle.dumps(v, proto))
    for (m, n) in [("vp_sink", "hit"), ("collections", "OrderedDict"), ("os", "getpid"), ("builtins", "len")]:
        for c in ("REDUCE", "OBJ", "NEWOBJ"):
            for fate in ("result", "pop", "in_list"):
                pool.append(gen.apply_fate(gen.make_call("GLOBAL", c, m, n, ["x"]), fate))
    pool.append(b"(K\x01ivp_sink\nK\n.")
    # equal-but-differently-written arguments inside one pickle (True / 1 at protocol 0, 0.0 / -0.0, padded LONG1)
    pool += [pickle.dumps([True, 1, False, 0], 0), pickle.dumps([1, True, 0, False], 0), pickle.dumps([0.0, -0.0, 0.0], 2),
             b"(I1\nI01\nI1\nl.", b"(\x8a\x01\x05\x8a\x02\x05\x00\x8a\x01\x05t."]
    pool.append(b"\x8c\x03pid\x94Q.")
    # memo slots bound more than once (hand-written; rewritten twice by this tool in run-first mode, which parks the
    # value at one fixed key both times)
    pool += [b"]q\x00]q\x00K\x07aa.", b"\x80\x02]q\x010}q\x010]q\x01K\x05a.", b"\x80\x04]\x94]q\x00K\x07aa."]
    try:
        import fickling.fickle as f_
        for base in (pickle.dumps([1, 2], 2), pickle.dumps({"a": [1]}, 4)):
            p2 = f_.Pickled.load(base)
            p2.insert_python_eval("1+1", run_first=True, use_output_as_unpickle_result=False)
            p2 = f_.Pickled.load(p2.dumps())
            p2.insert_python_eval("2+2", run_first=True, use_output_as_unpickle_result=False)
            pool.append(p2.dumps())
    except Exception:
        pass
    return pool


def run_cli(cli, argv, stdin_obj=None):
    out, err = FakeStdout(), io.StringIO()
    old_in, old_out = sys.stdin, sys.stdout
    if stdin_obj is not None:
        sys.stdin = stdin_obj
    sys.stdout = out
    try:
        with contextlib.redirect_stderr(err):
            try:
                rc = cli.main(argv)
            except SystemExit as e:
                rc = e.code
            except RecursionError:
                rc = "RecursionError"
            except Exception as e:              # an uncaught exception is how a real process ends with status 1
                rc = f"uncaught {type(e).__name__}: {str(e)[:80]}"
    finally:
        sys.stdin, sys.stdout = old_in, old_out
    return rc, out.buffer.getvalue(), out.getvalue(), err.getvalue()


def split_stack(data):
    parts, pos = [], 0
    while pos < len(data):
        end = None
        for op, arg, p in pickletools.genops(data[pos:]):
            if op.name == "STOP":
                end = pos + p + 1
        if end is None:
            raise ValueError("no STOP")
        parts.append(data[pos:end])
        pos = end
    return parts


def _symlinked_path(ctx, data, parts):
    import shutil
    real = os.path.join(ctx.scratch, "c18_real")
    other = os.path.join(ctx.scratch, "c18_other")
    shutil.rmtree(real, ignore_errors=True)
    shutil.rmtree(other, ignore_errors=True)
    os.makedirs(real)
    os.makedirs(os.path.join(other, "sub"))
    with open(os.path.join(other, "stack.pkl"), "wb") as fh:      # what the spelled path really names
        fh.write(data)
    with open(os.path.join(real, "stack.pkl"), "wb") as fh:       # the decoy a lexical collapse would open
        fh.write(parts[0] + b"N.")
    os.symlink(os.path.join(other, "sub"), os.path.join(real, "shards"))
    return os.path.join(real, "shards", "..", "stack.pkl")


def effective_globals(data):
    """(module, name) of every GLOBAL / INST / STACK_GLOBAL-with-constant-names as the *stock* unpickler resolves them:
    Python 2 names are translated only while the announced protocol is below 3 (pickle.Unpickler.find_class)."""
    import _compat_pickle
    import pickletools
    proto, out, strs = 0, [], []
    for op, arg, _pos in pickletools.genops(data):
        if op.name == "PROTO":
            proto = arg
        if op.name in ("GLOBAL", "INST"):
            m, n = arg.split(" ", 1)
        elif op.name == "STACK_GLOBAL" and len(strs) >= 2:
            m, n = strs[-2], strs[-1]
        else:
            if op.name in ("SHORT_BINUNICODE", "BINUNICODE", "UNICODE", "BINUNICODE8"):
                strs.append(arg)
            elif op.name not in ("MEMOIZE", "BINPUT", "PUT", "LONG_BINPUT"):
                strs = strs[-2:] if op.name in ("MEMOIZE",) else []
            continue
        if proto < 3:
            if (m, n) in _compat_pickle.NAME_MAPPING:
                m, n = _compat_pickle.NAME_MAPPING[(m, n)]
            elif m in _compat_pickle.IMPORT_MAPPING:
                m = _compat_pickle.IMPORT_MAPPING[m]
        out.append((m, n))
        strs = []
    return out


def check_inject(ctx, f, cli, parts, k, run_last, replace, source):
    agg = ctx.agg
    data = b"".join(parts)
    n = len(parts)
    key = h(repr((data, k, run_last, replace, source)).encode())
    inj = INJS[int(key[:2], 16) % len(INJS)] if int(key[2:4], 16) % 3 == 0 else INJ
    if not agg.case(key, n >= 2, {"n": n, "target": k, "run_last": run_last, "replace": replace, "input": source,
                                  "part_lens": [len(p) for p in parts]}):
        return
    w = {"parts_hex": [p.hex() for p in parts], "target": k, "run_last": run_last, "replace": replace, "input": source,
         "code": inj[:60] + ("..." if len(inj) > 60 else ""), "code_chars": len(inj), "code_utf8_bytes": len(inj.encode())}
    argv = ["fickling", "--inject", inj, "--inject-target", str(k)]
    if run_last:
        argv.append("--run-last")
    if replace:
        argv.append("--replace-result")
    path = os.path.join(ctx.scratch, "c18_in.pkl")
    stdin_obj = None
    if source == "file":
        with open(path, "wb") as fh:
            fh.write(data)
        argv.append(path)
    elif source == "file-symlink-dotdot":
        # a path spelled <dir>/<symlink>/../stack.pkl: the kernel resolves the symlink before the "..", collapsing
        # the text first lands on another file of the same name
        argv.append(_symlinked_path(ctx, data, parts))
    else:
        stdin_obj = FakeStdin(data, seekable=(source == "stdin-seekable"))
    try:
        rc, outb, outt, err = run_cli(cli, argv, stdin_obj)
    finally:
        if os.path.exists(path):
            os.remove(path)
    if k >= n:
        agg.count("out_of_range_runs")
        if rc == 0 or outb or outt:
            agg.violation("inject-out-of-range", f"target {k} of {n}: exit {rc}, {len(outb)} bytes + {len(outt)} chars on stdout", w)
        return
    agg.count("inject_runs")
    if rc != 0:
        agg.violation("inject-exit", f"in-range injection exits with {rc}: {err[:120]}", w)
        return
    try:
        got = split_stack(outb)
    except Exception as e:
        agg.violation("inject-output-not-a-stack", f"stdout does not re-parse as stacked pickles: {e}"[:200], w)
        return
    if len(got) != n:
        agg.violation("inject-count", f"{len(got)} pickles on stdout for {n} in the input", w)
        return
    for i, (a, b) in enumerate(zip(parts, got)):
        if i != k and a != b:
            agg.violation("inject-not-local", f"pickle {i} (not the target {k}) was changed", w)
            return
    exp = f.Pickled.load(parts[k])
    exp.insert_python_eval(inj, run_first=not run_last, use_output_as_unpickle_result=replace)
    if gen.frames_wellformed(parts[k]) is None:
        agg.count("framing_checked")
        fault = gen.frames_wellformed(got[k])
        if fault is not None:
            agg.violation("inject-breaks-framing", f"the input's pickle {k} is well framed, the emitted one is not: {fault}",
                          dict(w, parts_hex=[p.hex()[:200] for p in parts]))
            return
    if got[k] != exp.dumps():
        agg.violation("inject-target-differs", "target pickle differs from the library's injection with the same flags",
                      dict(w, got=got[k].hex()[:400], expected=expected.hex()[:400]))
    # and what the emitted k-th pickle *does* (reference VM, stubs only): if the input's k-th runs, so does the emitted one;
    # it performs the input's imports and calls plus the injected eval; without --replace-result it yields the same value
    from vp import refvm
    vm0, err0 = refvm.run_ref(parts[k])
    if err0 is None:
        vm1, err1 = refvm.run_ref(got[k])
        agg.count("emitted_target_run_on_reference_vm")
        if err1 is not None:
            agg.violation("inject-target-does-not-run",
                          f"the input's pickle {k} runs on the reference VM, the emitted one raises {type(err1).__name__}: {str(err1)[:100]}", w)
            return
        ev0 = [e for e in vm0.log.events if e[0] in ("call", "import")]
        ev1 = [e for e in vm1.log.events if e[0] in ("call", "import")]
        evals = [e for e in ev1 if e[0] == "call" and e[1][:3] == ("glob", "builtins", "eval")]
        rest = [e for e in ev1 if not (e[0] == "call" and e[1][:3] == ("glob", "builtins", "eval")) and e[:3] != ("import", "builtins", "eval")]
        base_rest = [e for e in ev0 if e[:3] != ("import", "builtins", "eval") and not (e[0] == "call" and e[1][:3] == ("glob", "builtins", "eval"))]
        if len(evals) != 1 + sum(1 for e in ev0 if e[0] == "call" and e[1][:3] == ("glob", "builtins", "eval")) \
                or [refvm.shallow_sig(e) for e in rest if e[0] == "call"] != [refvm.shallow_sig(e) for e in base_rest if e[0] == "call"]:
            agg.violation("inject-target-does-something-else",
                          f"the emitted pickle {k} does not perform the input's calls plus exactly one injected eval "
                          f"({len(evals)} eval call(s), {sum(1 for e in rest if e[0] == 'call')} other call(s) for {sum(1 for e in base_rest if e[0] == 'call')})", w)
            return
        if not replace and refvm.canon(vm1.value) != refvm.canon(vm0.value):
            agg.violation("inject-target-value-differs",
                          f"without --replace-result the emitted pickle {k} unpickles to {str(refvm.canon(vm1.value))[:100]}, "
                          f"the input's to {str(refvm.canon(vm0.value))[:100]}", w)
            return
    # ... and it names the input's globals the way the stock unpickler will resolve them (the announced protocol decides
    # whether Python 2 module names are translated)
    try:
        from collections import Counter
        lost = Counter(effective_globals(parts[k])) - Counter(effective_globals(got[k]))
        agg.count("effective_globals_compared")
    except Exception:
        lost = None
    if lost:
        agg.violation("inject-target-resolves-other-globals",
                      f"the stock unpickler resolves {sorted(lost)[:3]} for the input's pickle {k}; the emitted one no longer names them "
                      f"(announced protocol {[a for o, a, _ in __import__('pickletools').genops(parts[k]) if o.name == 'PROTO'][:1]} -> "
                      f"{[a for o, a, _ in __import__('pickletools').genops(got[k]) if o.name == 'PROTO'][:1]})", w)
        return
    if outt:
        agg.violation("inject-text-on-stdout", f"text mixed into the binary output: {outt[:80]!r}", w)


def check_decompile(ctx, f, cli, parts, source):
    agg = ctx.agg
    data = b"".join(parts)
    n = len(parts)
    key = h(repr((data, "decompile", source)).encode())
    creates_vars = any(b"R" in p or b"o" in p or b"\x81" in p for p in parts)
    if not agg.case(key, n >= 2 or creates_vars, {"n": n, "mode": "decompile", "input": source}):
        return
    w = {"parts_hex": [p.hex() for p in parts], "input": source, "mode": "decompile"}
    path = os.path.join(ctx.scratch, "c18_in.pkl")
    stdin_obj = None
    argv = ["fickling"]
    if source == "file":
        with open(path, "wb") as fh:
            fh.write(data)
        argv.append(path)
    elif source == "file-symlink-dotdot":
        argv.append(_symlinked_path(ctx, data, parts))
    else:
        stdin_obj = FakeStdin(data, seekable=(source == "stdin-seekable"))
    try:
        rc, outb, text, err = run_cli(cli, argv, stdin_obj)
    finally:
        if os.path.exists(path):
            os.remove(path)
    agg.count("decompile_runs")
    if rc != 0:
        agg.violation("decompile-exit", f"decompilation of a decompilable stack exits with {rc}: {err[:150]}", w)
        return
    w["program"] = text[:800]
    try:
        tree = ast.parse(text)
        compile(tree, "<cli>", "exec")
    except SyntaxError as e:
        agg.violation("decompile-not-python", f"CLI output is not a valid Python program: {e}"[:200], w)
        return
    stores = [nd.id for nd in ast.walk(tree) if isinstance(nd, ast.Name) and isinstance(nd.ctx, ast.Store)]
    dup = sorted({s for s in stores if stores.count(s) > 1})
    if dup:
        agg.violation("decompile-variable-reused", f"names bound more than once across the stack: {dup[:5]}", w)
        return
    missing = [f"result{i}" for i in range(n) if f"result{i}" not in stores]
    if missing or any(s.startswith("result") and s not in {f"result{i}" for i in range(n)} for s in stores):
        agg.violation("decompile-result-names", f"result names wrong: missing {missing}, stores {sorted(s for s in stores if s.startswith('result'))}", w)
        return
    try:
        log, _val, g = refvm.exec_decompiled(text, "result0")
    except Exception as e:
        agg.violation(f"decompile-exec-raises:{type(e).__name__}", f"executing the CLI's program under stubs raises: {e}"[:200], w)
        return
    for i, part in enumerate(parts):
        vm, err2 = refvm.run_ref(part)
        if err2 is not None:
            continue
        agg.count("results_compared")
        if refvm.canon(vm.value) != refvm.canon(g[f"result{i}"]):
            agg.violation("decompile-result-differs", f"result{i} differs from the value the VM builds for pickle {i}",
                          dict(w, vm=str(refvm.canon(vm.value))[:300], got=str(refvm.canon(g[f'result{i}']))[:300]))
            return


def stacks(ctx):
    pool = part_pool(ctx)
    n_rand = {"quick": 250, "thorough": 5000}[ctx.tier]
    out = []
    for i in range(n_rand):
        rng = asm.rng_for(ctx.seed, f"c18s{i}")
        out.append([rng.choice(pool) for _ in range(rng.randint(1, 5))])
    # directed: all five parts create variables
    out.append([pool[-1], pool[-2], pool[30], pool[31], pool[40]])
    # directed: protocol 4/5 pickles with several FRAMEs, and with a large object written outside the frames that is
    # followed by only a few opcodes (checkpoint-like dicts whose last value is a big blob)
    meta = {("key_%05d" % i) * 4: i for i in range(4000)}
    for proto in (4, 5):
        big = [pickle.dumps({"step": 1, "weights": b"x" * 100000}, proto), pickle.dumps(["a", "y" * 70000], proto),
               pickle.dumps({"meta": meta}, proto), pickle.dumps([b"z" * 66000, 1], proto), pickle.dumps((b"w" * 65536,), proto)]
        for bi, b in enumerate(big):
            out.append([pool[bi], b, pool[3 + bi]])
            out.append([b])
        out.append([big[0], big[1]])
    return out


def run_shard(ctx):
    import fickling  # noqa: F401
    import fickling.fickle as f
    import fickling.cli as cli
    sources = ["file", "stdin-seekable", "stdin-nonseekable", "file-symlink-dotdot"]
    i = 0
    for parts in stacks(ctx):
        ok = True
        for p in parts:
            try:
                ast.unparse(f.Pickled.load(p).ast)
            except Exception:
                ok = False
        if not ok:
            ctx.agg.count("stack_skipped_not_decompilable")
            continue
        for k in range(len(parts) + 1):
            for run_last in (False, True):
                for replace in (False, True):
                    i += 1
                    if i % ctx.nshards != ctx.shard:
                        continue
                    src = sources[i // ctx.nshards % len(sources)] if ctx.tier == "quick" else None
                    for s in ([src] if src else sources):
                        check_inject(ctx, f, cli, parts, k, run_last, replace, s)
        for s in sources:
            i += 1
            if i % ctx.nshards == ctx.shard:
                check_decompile(ctx, f, cli, parts, s)


def parent_phase(tier, seed, merged):
    """Real `python -m fickling` subprocesses with a pipe on stdin (non-seekable) vs a file."""
    from vp import core
    pool = [pickle.dumps([1, 2], 2), pickle.dumps({"a": 1}, 4), b"cvp_sink\nhit\n(K\x01tR.", pickle.dumps("t", 0),
            b"ccollections\nOrderedDict\n)R."]
    env = core.child_env()
    wd = os.path.join(core.WORK, f"c18-sub-{os.getpid()}")
    os.makedirs(wd, exist_ok=True)
    nrun = 0
    try:
        n_stacks = {"quick": 6, "thorough": 40}[tier]
        for i in range(n_stacks):
            rng = asm.rng_for(seed, f"c18p{i}")
            parts = [rng.choice(pool) for _ in range(rng.randint(1, 4))]
            data = b"".join(parts)
            path = os.path.join(wd, "in.pkl")
            with open(path, "wb") as fh:
                fh.write(data)
            for k in (0, len(parts) - 1, len(parts)):
                base = [core.PY, "-m", "fickling", "--inject", INJ, "--inject-target", str(k)]
                r1 = subprocess.run(base, input=data, capture_output=True, cwd=wd, env=env, timeout=120)
                r2 = subprocess.run(base + [path], capture_output=True, cwd=wd, env=env, timeout=120)
                nrun += 2
                v = None
                if r1.returncode != r2.returncode or r1.stdout != r2.stdout:
                    v = ("subprocess-stdin-vs-file", "real CLI gives different results for a pipe on stdin and for a file")
                elif k >= len(parts) and (r1.returncode == 0 or r1.stdout):
                    v = ("inject-out-of-range", f"real CLI: exit {r1.returncode}, {len(r1.stdout)} bytes on stdout")
                elif k < len(parts):
                    try:
                        got = split_stack(r1.stdout)
                    except Exception:
                        got = None
                    if r1.returncode != 0 or got is None or len(got) != len(parts) or any(
                            a != b for j, (a, b) in enumerate(zip(parts, got)) if j != k) or got[k] == parts[k]:
                        v = ("subprocess-inject", "real CLI injection output is not n pickles with only the target changed")
                if v:
                    e = merged["violations"].setdefault(v[0], {"count": 0, "what": v[1], "witnesses": []})
                    e["count"] += 1
                    if len(e["witnesses"]) < 3:
                        e["witnesses"].append({"parts_hex": [p.hex() for p in parts], "target": k,
                                               "stderr": r1.stderr[-200:].decode("utf-8", "replace")})
            r3 = subprocess.run([core.PY, "-m", "fickling"], input=data, capture_output=True, cwd=wd, env=env, timeout=120)
            r4 = subprocess.run([core.PY, "-m", "fickling", path], capture_output=True, cwd=wd, env=env, timeout=120)
            nrun += 2
            bad = r3.returncode != 0 or r3.stdout != r4.stdout
            if not bad:
                try:
                    compile(r3.stdout.decode(), "<cli>", "exec")
                except Exception:
                    bad = True
            if bad:
                e = merged["violations"].setdefault("subprocess-decompile", {"count": 0, "what": "real CLI decompilation via stdin differs from file or is not Python", "witnesses": []})
                e["count"] += 1
                e["witnesses"].append({"parts_hex": [p.hex() for p in parts]})
    finally:
        import shutil
        shutil.rmtree(wd, ignore_errors=True)
    merged["counters"]["subprocess_runs"] = nrun
    return {"real_subprocess_runs": nrun}


def replay(ctx, payload):
    import fickling  # noqa: F401
    import fickling.fickle as f
    import fickling.cli as cli
    c = payload["case"]
    parts = [bytes.fromhex(x) for x in c["parts_hex"]]
    if c.get("mode") == "decompile":
        check_decompile(ctx, f, cli, parts, c.get("input", "file"))
    elif "run_last" in c:
        check_inject(ctx, f, cli, parts, c["target"], c["run_last"], c["replace"], c.get("input", "file"))
    else:
        ctx.agg.inconclusive.append("subprocess witness: re-run the check")

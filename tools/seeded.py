#!/usr/bin/env python3
"""Seeded breaking changes written by independent sub-agents.

  tools/seeded.py ingest <WT> <ID> [name]   copy <WT>/_seed/{patch.diff,demo.py,meta.json} to seeded/<ID>[-name]/
  tools/seeded.py verify <DIR>              in a scratch copy of /repo HEAD: demo passes without the patch,
                                            fails with it, the repository's suite still passes with it
  tools/seeded.py check <DIR> [props...]    run the checks (default: the property the change breaks) against
                                            the patched scratch copy; prints whether they caught it

Scratch copies live under /tmp and are removed."""
import json
import os
import shutil
import subprocess
import sys
import tempfile

ROOT = os.path.dirname(os.path.dirname(os.path.abspath(__file__)))
PY = "/venv/bin/python"


BASE_USED = {}


def scratch_rev(rev):
    d = tempfile.mkdtemp(prefix="vp-seed-")
    subprocess.run(f"git -C /repo archive {rev} | tar -x -C {d}", shell=True, check=True)
    return d


def scratch(patch=None):
    """Scratch copy of /repo at SEED_BASE_REV (default HEAD) with the patch applied.  A change written against an
    earlier tree may no longer apply after later `fix:` commits touched the same lines: then the newest earlier
    commit on which it applies cleanly is used (and reported)."""
    first = os.environ.get("SEED_BASE_REV", "HEAD")
    revs = [first]
    if patch:
        older = subprocess.run(["git", "-C", "/repo", "rev-list", "--max-count=40", first], capture_output=True, text=True).stdout.split()
        revs += older[1:]
    last_err = ""
    for rev in revs:
        d = tempfile.mkdtemp(prefix="vp-seed-")
        subprocess.run(f"git -C /repo archive {rev} | tar -x -C {d}", shell=True, check=True)
        if not patch:
            return d
        r = subprocess.run(["patch", "-p1", "--no-backup-if-mismatch", "-F0", "-d", d, "-i", os.path.abspath(patch)],
                           capture_output=True, text=True)
        if r.returncode == 0:
            BASE_USED[patch] = rev
            if rev != first:
                print(f"(patch does not apply on {first}; applied on {rev[:7]})")
            return d
        last_err = r.stdout + r.stderr
        shutil.rmtree(d)
    raise SystemExit("patch failed on every candidate base: " + last_err[-300:])


def run_demo(d, demo):
    os.makedirs(os.path.join(d, "_seed"), exist_ok=True)
    shutil.copy(demo, os.path.join(d, "_seed", "demo.py"))
    r = subprocess.run([PY, "_seed/demo.py"], cwd=d, env=dict(os.environ, PYTHONPATH=d), capture_output=True, text=True, timeout=900)
    return r.returncode, (r.stdout + r.stderr)[-400:]


def main():
    cmd = sys.argv[1]
    if cmd == "ingest":
        wt, pid = sys.argv[2], sys.argv[3]
        name = pid + ("-" + sys.argv[4] if len(sys.argv) > 4 else "")
        dst = os.path.join(ROOT, "seeded", name)
        os.makedirs(dst, exist_ok=True)
        for f in ("patch.diff", "demo.py", "meta.json"):
            shutil.copy(os.path.join(wt, "_seed", f), os.path.join(dst, f))
        print("ingested", dst)
        return 0
    d0 = sys.argv[2].rstrip("/")
    patch, demo = os.path.join(d0, "patch.diff"), os.path.join(d0, "demo.py")
    meta_p = os.path.join(d0, "meta.json")
    meta = json.load(open(meta_p)) if os.path.exists(meta_p) else {}
    if "base_rev" in meta and "SEED_BASE_REV" not in os.environ:
        os.environ["SEED_BASE_REV"] = meta["base_rev"].split()[0]
    if cmd == "verify":
        clean = scratch()
        mut = scratch(patch)
        try:
            rc0, out0 = run_demo(clean, demo)
            rc1, out1 = run_demo(mut, demo)
            full = "--full" in sys.argv
            tests = ["test/"] if full else ["test/test_pickle.py", "test/test_crashes.py", "test/test_hook.py", "test/test_unpickler.py"]
            r = subprocess.run([PY, "-m", "pytest", "-q", "-p", "no:cacheprovider", "--timeout=900"] + tests, cwd=mut,
                               env=dict(os.environ, PYTHONPATH=mut), capture_output=True, text=True)
            last = r.stdout.strip().splitlines()[-1] if r.stdout.strip() else r.stderr[-200:]
            known_fail = {"test_numpy_non_pickle", "test_numpy_pickle", "test_recursive_tar", "test_recursive_zip"}
            failed = {ln.split("::")[-1].split(" ")[0] for ln in r.stdout.splitlines() if ln.startswith("FAILED")}
            ok_tests = failed <= known_fail
            print(f"demo on unchanged tree: exit {rc0}; demo with the change: exit {rc1}; suite with the change: {last} (unexpected failures: {sorted(failed - known_fail)})")
            good = rc0 == 0 and rc1 != 0 and ok_tests
            meta["verified"] = {"demo_unchanged_exit": rc0, "demo_changed_exit": rc1, "suite_with_change": last,
                                "suite_scope": "full" if full else "fast subset", "confirmed": good}
            json.dump(meta, open(meta_p, "w"), indent=1)
            print("CONFIRMED" if good else "NOT CONFIRMED", out1[-200:] if not good else "")
            return 0 if good else 1
        finally:
            shutil.rmtree(clean, ignore_errors=True)
            shutil.rmtree(mut, ignore_errors=True)
    if cmd == "check":
        props = sys.argv[3:] or [meta.get("property", os.path.basename(d0)[:3])]
        tier = os.environ.get("SEED_TIER", "quick")
        mut = scratch(patch)
        try:
            env = dict(os.environ, VERIF_REPO=mut, VERIF_NO_EVIDENCE="1")
            res = {}
            base_rev = BASE_USED.get(patch, "HEAD")
            head = subprocess.run(["git", "-C", "/repo", "rev-parse", "HEAD"], capture_output=True, text=True).stdout.strip()
            old_base = base_rev not in ("HEAD", head) and not head.startswith(base_rev)

            def keyset(stderr, p):
                return {ln.strip().split(" ", 2)[1].rstrip(":") for ln in stderr.splitlines() if ln.strip().startswith(f"[{p}]")}
            for p in props:
                r = subprocess.run([os.path.join(ROOT, "check"), p, "--tier", tier], env=env, capture_output=True, text=True)
                keys = [ln.strip()[:220] for ln in r.stderr.splitlines() if ln.strip().startswith(f"[{p}]")]
                res[p] = {"exit": r.returncode, "keys": keys[:4], "base": base_rev[:7]}
                if old_base and r.returncode == 1:
                    # the base is an older tree that may itself violate (defects repaired since): only violation
                    # keys that the unpatched base does not show are attributed to the change
                    clean = scratch_rev(base_rev)
                    try:
                        r0 = subprocess.run([os.path.join(ROOT, "check"), p, "--tier", tier],
                                            env=dict(env, VERIF_REPO=clean), capture_output=True, text=True)
                    finally:
                        shutil.rmtree(clean, ignore_errors=True)
                    new = sorted(keyset(r.stderr, p) - keyset(r0.stderr, p))
                    res[p]["keys_not_on_base"] = new[:6]
                    print(f"    (base {base_rev[:7]} alone: exit {r0.returncode}; keys only with the change: {new[:4]})")
                    if not new:
                        res[p]["exit"] = 0
                print(f"{p} ({tier}): exit {res[p]['exit']}", *keys[:3], sep="\n    ")
                if r.returncode == 2:
                    print("   ", [ln for ln in r.stdout.splitlines() if "INCONCLUSIVE" in ln][:2])
            meta.setdefault("checks", {})[tier] = res
            json.dump(meta, open(meta_p, "w"), indent=1)
            return 0 if any(v["exit"] == 1 for v in res.values()) else 1
        finally:
            shutil.rmtree(mut, ignore_errors=True)


if __name__ == "__main__":
    sys.exit(main())

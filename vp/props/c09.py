"""C09 - Stepping and tracing mirror the real pickle VM opcode by opcode."""
import ast
import contextlib
import io

from vp import diffengine as de, diffrun
from vp.core import h

CONFIG = dict(
    level="exploration",
    rule=("same program workload as C03; each program is stepped in lockstep on fickling's Interpreter "
          "and on the reference VM and after every opcode (stack depth, mark positions, memo key set) "
          "are compared, so every prefix of every program is a check; Trace.run is compared with an "
          "untraced interpretation on a subset, also with the interpreter parameters the CLI uses for the "
          "k-th pickle of a stack (first_variable_id, result_variable) and from a partially stepped interpreter.  A case is one distinct byte string; non-trivial = "
          ">=3 lockstep steps compared including at least one mark or memo opcode."),
    assumptions=[
        "CPython's pickle._Unpickler (metastack flattened, one slot per MARK) is the reference VM",
        "comparison stops at the first opcode either side refuses",
    ],
    min_nontrivial={"quick": 2000, "thorough": 50000},
    nshards={"quick": 16, "thorough": 16},
    timeout={"quick": 900, "thorough": 7200},
    required_counters=("lockstep_steps", "trace_checks", "snapshot_steps_compared"),
)


def trace_check(ctx, label, data, o, names):
    f = de.fickle()
    from fickling import tracing
    agg = ctx.agg
    reported = []

    class Watch(tracing.Trace):          # monitor at the reporting hook itself
        def on_opcode(self, opcode):
            reported.append(opcode.info.name)
            return super().on_opcode(opcode)

    try:
        p1 = f.Pickled.load(data)
        before = p1.dumps()
        buf = io.StringIO()
        with contextlib.redirect_stdout(buf):
            mod = Watch(f.Interpreter(p1)).run()
        out = buf.getvalue()
    except RecursionError:
        agg.count("trace_refused_recursion")
        return
    except Exception as e:
        if o.fick_ok:
            agg.violation(f"trace-raises:{type(e).__name__}",
                          "tracing raised although untraced decompilation of the same bytes succeeds",
                          diffrun.witness(label, data, names, error=repr(e)[:300]))
        else:
            agg.count("trace_refused_like_untraced")
        return
    agg.count("trace_checks")
    want = [op.info.name for op in p1]
    stop = want.index("STOP") + 1 if "STOP" in want else len(want)
    want = want[:stop]
    # every reported name must also be on stdout, in order (lines may be interleaved with details)
    lines = out.split("\n")
    it = iter(lines)
    on_stdout = all(any(ln == n for ln in it) for n in reported)
    if reported != want or not on_stdout:
        agg.violation("trace-opcode-sequence", "opcodes reported by Trace.run differ from the parsed sequence",
                      diffrun.witness(label, data, names, reported=reported[:40], expected=want[:40],
                                      on_stdout=on_stdout))
    if o.fick_ok and o.module is not None:
        if de.sdump(mod) != de.sdump(o.module):
            agg.violation("trace-changes-program", "Trace.run returns a different program from untraced decompilation",
                          diffrun.witness(label, data, names, traced=de.sdump(mod)[:400], plain=de.sdump(o.module)[:400]))
    if p1.dumps() != before or before != data[:len(before)]:
        agg.violation("trace-changes-bytes", "tracing changed the serialised bytes",
                      diffrun.witness(label, data, names))
    # the same parsed object decompiled, traced and interpreted again (what `fickling --trace` after an analysis does):
    # every pass gives the same program and none of them changes what an earlier one returned
    if o.fick_ok and len(data) <= 30000:
        try:
            p2 = f.Pickled.load(data)
            first = de.sdump(p2.ast)
            with contextlib.redirect_stdout(io.StringIO()):
                traced2 = de.sdump(tracing.Trace(f.Interpreter(p2)).run())
            again = de.sdump(f.Interpreter(p2).to_ast())
            with contextlib.redirect_stdout(io.StringIO()):
                traced3 = de.sdump(tracing.Trace(f.Interpreter(p2)).run())
            cached = de.sdump(p2.ast)
            agg.count("same_object_passes_compared")
            passes = {"decompile": first, "trace": traced2, "interpret-again": again, "trace-again": traced3, "cached-decompile": cached}
            bad = [k for k, v in passes.items() if v != first]
            if bad or first != de.sdump(o.module):
                agg.violation("trace-changes-program:same-object",
                              f"decompile, trace, interpret, trace on one parsed object: passes {bad or ['decompile']} differ from "
                              f"the first decompile / from a fresh object's",
                              diffrun.witness(label, data, names, first=first[:300], differing=(passes[bad[0]] if bad else de.sdump(o.module))[:300]))
        except RecursionError:
            pass
        except Exception as e:
            agg.violation(f"trace-raises:{type(e).__name__}:same-object",
                          "decompile / trace / interpret again on one parsed object raised although plain decompilation succeeds",
                          diffrun.witness(label, data, names, error=repr(e)[:300]))
    # the interpreter's own parameters (what the CLI passes for the k-th pickle of a stack) and a
    # partially stepped interpreter: traced == untraced with the same parameters / same starting point
    if not o.fick_ok or len(data) > 30000:       # (tracing copies the memo at every opcode: quadratic on big pickles)
        return
    for fv, rv, pre in ((7, "result3", 0), (0, "result", 2), (3, "out", 1)):
        try:
            ia, ib = (f.Interpreter(f.Pickled.load(data), first_variable_id=fv, result_variable=rv) for _ in range(2))
            for _ in range(pre):
                ia.step()
                ib.step()
            plain = ia.to_ast()
            with contextlib.redirect_stdout(io.StringIO()):
                traced = tracing.Trace(ib).run()
        except StopIteration:
            continue
        except RecursionError:
            return
        except Exception as e:
            agg.violation(f"trace-raises:{type(e).__name__}:parametrised",
                          "tracing (or untraced interpretation) with first_variable_id / result_variable / a partially "
                          "stepped interpreter raised although plain decompilation succeeds",
                          diffrun.witness(label, data, names, error=repr(e)[:300], params=[fv, rv, pre]))
            return
        agg.count("trace_param_checks")
        if de.sdump(traced) != de.sdump(plain) or ia.next_variable_id != ib.next_variable_id:
            agg.violation("trace-changes-program:parametrised",
                          "with the same first_variable_id / result_variable / starting point Trace.run returns a different "
                          "program (or leaves a different next_variable_id) from untraced interpretation",
                          diffrun.witness(label, data, names, params=[fv, rv, pre], traced=ast.unparse(traced)[:300],
                                          plain=ast.unparse(plain)[:300],
                                          next_ids=[ia.next_variable_id, ib.next_variable_id]))
            return


def snapshot_resume(ctx, label, data, o, names):
    """Stepping resumed from a snapshot: the interpreter is deep-copied at a prefix (a debugger's checkpoint, a
    worker that got the state shipped) and the copy stepped on.  After every further opcode the copy has the same
    depth, mark positions and memo keys as the interpreter it was copied from (which the lockstep above compares
    with the VM), and a trace of the copy returns the same program."""
    import copy
    f = de.fickle()
    from fickling import tracing
    agg = ctx.agg
    n = len(names or ())
    if not o.fick_ok or n < 3 or n > 80:
        return
    marks_at = [i for i, nm in enumerate(names) if nm == "MARK"]
    cuts = sorted({(marks_at[0] + 1) if marks_at else 1, n // 2, (marks_at[-1] + 1) if marks_at else n - 1} - {0, n})

    def shape(it):
        st = it.stack
        return (len(st), [j for j, x in enumerate(st) if isinstance(x, f.MarkObject)], sorted(map(repr, it.memory)))
    for cut in cuts:
        try:
            live = f.Interpreter(f.Pickled.load(data))
            for _ in range(cut):
                live.step()
            snap = copy.deepcopy(live)
        except RecursionError:
            return
        except Exception as e:
            agg.count(f"snapshot_not_possible_{type(e).__name__}")
            return
        agg.count("snapshots_resumed")
        for k in range(cut, n):
            try:
                a = live.step()
            except (StopIteration, Exception):
                break
            try:
                snap.step()
                bad = shape(snap) != shape(live)
                what = f"{shape(snap)} where the interpreter it was copied from has {shape(live)}"
            except RecursionError:
                return
            except Exception as e:
                bad, what = True, f"{type(e).__name__}: {str(e)[:100]}"
            agg.count("snapshot_steps_compared")
            if bad:
                agg.violation(f"snapshot-resume-diverges:{a.info.name}",
                              f"an interpreter deep-copied after {cut} opcodes and stepped on: after {a.info.name} (opcode {k}) it has {what}",
                              diffrun.witness(label, data, names, cut=cut, snapshot=True))
                return
            if a.info.name == "STOP":
                break
        try:
            l2 = f.Interpreter(f.Pickled.load(data))
            for _ in range(cut):
                l2.step()
            with contextlib.redirect_stdout(io.StringIO()):
                traced = tracing.Trace(copy.deepcopy(l2)).run()
            plain = f.Interpreter(f.Pickled.load(data)).to_ast()
        except RecursionError:
            return
        except Exception as e:
            agg.violation(f"snapshot-trace-raises:{type(e).__name__}",
                          f"tracing an interpreter deep-copied after {cut} opcodes raises although untraced decompilation succeeds: {str(e)[:100]}",
                          diffrun.witness(label, data, names, cut=cut, snapshot=True))
            return
        if de.sdump(traced) != de.sdump(plain):
            agg.violation("snapshot-trace-changes-program",
                          f"tracing an interpreter deep-copied after {cut} opcodes returns a different program from untraced decompilation",
                          diffrun.witness(label, data, names, cut=cut, snapshot=True, traced=ast.unparse(traced)[:300], plain=ast.unparse(plain)[:300]))
            return


def oracle(ctx, label, data, o, names):
    agg = ctx.agg
    ch = h(data)
    nontrivial = bool(o.lock_steps and o.lock_steps >= 3 and o.has_markmemo)
    sample = None
    if nontrivial:
        sample = {"ops": names or o.ops, "lockstep_steps": o.lock_steps}
    if not agg.case(ch, nontrivial, sample):
        return
    agg.count("lockstep_steps", o.lock_steps or 0)
    if o.lock_div is not None:
        d = o.lock_div
        shape = "depth" if d["fick"][0] != d["vm"][0] else ("marks" if d["fick"][1] != d["vm"][1] else "memo")
        agg.violation(f"stack-effect:{d['op']}:{shape}",
                      f"after {d['op']} fickling has (depth, marks, memo keys)={d['fick']} but the VM has {d['vm']}",
                      diffrun.witness(label, data, names, lockstep=d))
    # tracing: all directed / natural / vocabulary programs, and a deterministic 1-in-8 sample of the rest
    if o.parse_err is None and (not label.startswith(("exh", "rand")) or int(ch[:2], 16) % 8 == 0):
        trace_check(ctx, label, data, o, names)
    if o.parse_err is None and o.has_markmemo and int(ch[2:4], 16) % 4 == 0:
        snapshot_resume(ctx, label, data, o, names)


def run_shard(ctx):
    diffrun.run(ctx, oracle, deep_need={"put", "get", "memoize", "list", "dict", "tuple", "frozenset",
                                        "appends", "setitems", "additems", "obj", "inst", "pop_mark"},
                want_exec=False)


def replay(ctx, payload):
    diffrun.replay_case(ctx, payload, oracle)

"""Reference pickle VM (CPython's own pure-Python unpickler driven one opcode at a time with
inert stubs), the executor for decompiled programs under the same stubs, canonical forms,
and the lockstep comparison with fickling's symbolic interpreter.

Nothing here imports fickling at module level.
"""
import _compat_pickle
import io
import pickle
import re
import sys

_VARNAME = re.compile(r"^(_var\d+|result\d*)$")

# extension code 1 -> vp_sink.hit, so that EXT1/2/4 programs are accepted by the reference VM
import copyreg as _copyreg  # noqa: E402
if 1 not in _copyreg._inverted_registry:
    _copyreg.add_extension("vp_sink", "hit", 1)


def norm_global(module, name):
    """py2 -> py3 name mapping applied to both sides before comparing (copy_reg == copyreg)."""
    if (module, name) in _compat_pickle.NAME_MAPPING:
        module, name = _compat_pickle.NAME_MAPPING[(module, name)]
    elif module in _compat_pickle.IMPORT_MAPPING:
        module = _compat_pickle.IMPORT_MAPPING[module]
    if module in ("__builtin__", "__builtins__", "builtins"):
        # a decompile refers to builtins by bare name, so the module spelling is not observable
        if ("__builtin__", name) in _compat_pickle.NAME_MAPPING:
            return _compat_pickle.NAME_MAPPING[("__builtin__", name)]
        module = "builtins"
    return module, name


def erase_modules(c):
    """Canonical form with the module of every global erased (to recognise differences that are
    only due to one bare name standing for the same attribute of two modules)."""
    if isinstance(c, tuple):
        if len(c) == 3 and c[0] == "glob":
            return ("glob", "*", c[2])
        if len(c) == 2 and c[0] in ("set", "frozenset") and isinstance(c[1], tuple):
            # two globals that differ only in their module are one element once the modules are erased
            elems = {erase_modules(x) for x in c[1]}
            return (c[0], tuple(sorted(elems, key=repr)))
        return tuple(erase_modules(x) for x in c)
    return c


class Log:
    __slots__ = ("events", "origin", "cur", "globs")

    def __init__(self):
        self.events = []
        self.origin = []     # parallel to events: (opcode index, opcode name) or None
        self.cur = None
        self.globs = {}      # (module, name) -> the one stub standing for that global

    def glob(self, module, name):
        m, n = norm_global(module, name)
        st = self.globs.get((m, n))
        if st is None:
            cls = FrozensetStub if (m, n) == ("builtins", "frozenset") else Stub
            st = self.globs[(m, n)] = cls(self, ("glob", m, n))
        return st

    def add(self, ev):
        self.events.append(ev)
        self.origin.append(self.cur)


class Canon:
    """Cycle- and DAG-safe canonical form.  `cyclic` is set when a cycle was cut."""

    def __init__(self):
        self.cyclic = False

    def __call__(self, v):
        return self._c(v, set(), {})

    def _c(self, v, path, memo):
        t = type(v)
        if v is None or t is bool or t is int or t is str or t is bytes:
            return ("k", t.__name__, repr(v))
        if t is float:
            return ("k", "float", repr(v))
        if t is Stub:
            return v.canon(self, path, memo)
        i = id(v)
        if i in path:
            self.cyclic = True
            return ("CYCLE",)
        if i in memo:
            return memo[i]
        path.add(i)
        try:
            if t is list or t is tuple:
                r = (t.__name__, tuple(self._c(x, path, memo) for x in v))
            elif t is dict:
                r = ("dict", tuple((self._c(k, path, memo), self._c(x, path, memo)) for k, x in v.items()))
            elif t is set or t is frozenset:
                r = (t.__name__, tuple(sorted((self._c(x, path, memo) for x in v), key=repr)))
            elif t is bytearray:
                r = ("k", "bytearray", repr(bytes(v)))
            elif t is memoryview:
                r = ("k", "memoryview", repr(bytes(v)), "readonly" if v.readonly else "writable")
            elif isinstance(v, (list, tuple, dict, set, frozenset)):
                r = ("sub", t.__name__, repr(v)[:200])
            else:
                r = ("other", t.__module__ + "." + t.__qualname__, repr(v)[:200])
        finally:
            path.discard(i)
        memo[i] = r
        return r


def canon(v):
    return Canon()(v)


class Stub:
    """Inert stand-in for anything a pickle can import or build by calling."""
    __slots__ = ("log", "desc", "muts")

    def __init__(self, log, desc):
        self.log = log
        self.desc = desc     # ('glob', module, name) | ('res', call-canon) | ('pers', pid-canon) | ...
        self.muts = []

    def canon(self, c, path, memo):
        if not self.muts:
            if self.desc[0] == "glob":
                return self.desc
            return ("obj", self.desc, ())
        i = id(self)
        if i in path:
            c.cyclic = True
            return ("CYCLE",)
        if i in memo:
            return memo[i]
        path.add(i)
        try:
            r = ("obj", self.desc,
                 tuple((m[0],) + tuple(c._c(x, path, memo) for x in m[1:]) for m in self.muts))
        finally:
            path.discard(i)
        memo[i] = r
        return r

    def __call__(self, *a, **k):
        c = Canon()
        ev = ("call", c(self), c(a), c(k) if k else ())
        self.log.add(ev)
        return Stub(self.log, ("res", ev))

    # mutations keep live references: the *value* of a stub is read at the end (final state),
    # while call / setstate events snapshot their arguments when they happen.
    def __setstate__(self, state):
        c = Canon()
        self.log.add(("setstate", c(self), c(state)))
        self.muts.append(("state", state))

    def append(self, x):
        self.muts.append(("append", x))

    def extend(self, xs):
        for x in xs:
            self.append(x)

    def add(self, x):
        self.muts.append(("add", x))

    def __setitem__(self, k, v):
        self.muts.append(("item", k, v))

    def update(self, d):
        for k, v in d.items():
            self[k] = v

    def __repr__(self):
        return f"<Stub {self.desc!r}>"


class FrozensetStub(Stub):
    """builtins.frozenset: `frozenset([...])` is the only way a FROZENSET opcode can be spelled in
    Python, so on both sides the call is logged *and* really builds the frozenset from the (real or
    stub) element objects - Python's own equality / hashing then decides what collapses."""
    __slots__ = ()

    def __call__(self, *a, **k):
        c = Canon()
        self.log.add(("call", c(self), c(a), c(k) if k else ()))
        if k or len(a) > 1:
            return Stub(self.log, ("res", self.log.events[-1]))
        try:
            return frozenset(*a)
        except TypeError:
            return Stub(self.log, ("res", self.log.events[-1]))


class ModStub:
    def __init__(self, log, name):
        object.__setattr__(self, "_log", log)
        object.__setattr__(self, "_name", name)

    def __getattr__(self, n):
        return self._log.glob(self._name, n)


class UnpicklerStub:
    def __init__(self, log):
        self.log = log

    def persistent_load(self, pid):
        ev = ("pers", canon(pid))
        self.log.add(ev)
        return Stub(self.log, ("res", ev))


class BuiltinsStub(dict):
    """__builtins__ for decompiled programs: every builtin name is a stub global; fickling's
    own variables are *not* invented (a dropped definition must surface as NameError)."""

    def __init__(self, log):
        super().__init__()
        self._log = log
        self["__import__"] = self._imp

    def _imp(self, *a, **k):
        # the import statement calls __import__(name, globals, locals, fromlist, level) with the exec
        # globals; anything else is the decompiled program itself calling the builtin __import__
        if len(a) == 5 and not k and isinstance(a[0], str) and isinstance(a[1], dict) and "__builtins__" in a[1]:
            name, fromlist = a[0], a[3]
            for n in (fromlist or ()):
                m, nn = norm_global(name, n)
                self._log.add(("import", m, nn))
            return ModStub(self._log, name)
        return self._log.glob("builtins", "__import__")(*a, **k)

    def __missing__(self, name):
        if _VARNAME.match(name) or name == "UNPICKLER":
            raise KeyError(name)
        return self._log.glob("builtins", name)


def exec_decompiled(src, result_name="result"):
    """Run decompiled source under inert stubs; returns (log, value).  Raises what exec raises."""
    log = Log()
    g = {"__builtins__": BuiltinsStub(log), "UNPICKLER": UnpicklerStub(log)}
    code = compile(src, "<decompiled>", "exec")
    try:
        exec(code, g)
    except BaseException as e:
        try:
            e.vp_log, e.vp_completed = log, False
        except Exception:
            pass
        raise
    if result_name not in g:
        e = NameError(f"decompiled program does not bind {result_name}")
        e.vp_log, e.vp_completed = log, True        # the program ran to its end: its events are all there
        raise e
    return log, g[result_name], g


class VMReject(Exception):
    pass


_bytes_types = (bytes, bytearray)


class RefVM(pickle._Unpickler):
    """pickle._Unpickler with stub find_class/persistent_load, lenient framing, driven by step()."""

    dispatch = dict(pickle._Unpickler.dispatch)

    def __init__(self, data):
        super().__init__(io.BytesIO(data), fix_imports=False)
        self.log = Log()
        self.nsteps = 0
        self.done = False
        self.value = None
        self.opnames = []
        # mirror of load()'s prologue
        self._unframer = pickle._Unframer(self._file_read, self._file_readline)
        self.read = self._unframer.read
        self.readinto = self._unframer.readinto
        self.readline = self._unframer.readline
        self.metastack = []
        self.stack = []
        self.append = self.stack.append
        self.proto = 0

    def find_class(self, module, name):
        m, n = norm_global(module, name)
        self.log.add(("import", m, n))
        return self.log.glob(m, n)

    def get_extension(self, code):
        # a VM with a cold extension cache (the consumer's fresh process): the first use of a code in this program goes
        # through find_class, later uses get the same object; the process-wide copyreg._extension_cache - filled by
        # whatever resolved the code first - is state outside the bytes and is neither read nor written
        cache = self.__dict__.setdefault("_vp_ext_cache", {})
        if code in cache:
            self.append(cache[code])
            return
        key = _copyreg._inverted_registry.get(code)
        if not key:
            if code <= 0:
                raise pickle.UnpicklingError("EXT specifies code <= 0")
            raise ValueError("unregistered extension code %d" % code)
        cache[code] = self.find_class(*key)
        self.append(cache[code])

    def persistent_load(self, pid):
        ev = ("pers", canon(pid))
        self.log.add(ev)
        return Stub(self.log, ("res", ev))

    def step(self):
        """Execute exactly one opcode.  Returns its opcode byte; sets done at STOP."""
        key = self.read(1)
        if not key:
            raise EOFError
        self.log.cur = (self.nsteps, key[0])
        try:
            self.dispatch[key[0]](self)
        except pickle._Stop as s:
            self.done = True
            self.value = s.value
        self.nsteps += 1
        return key[0]

    def run(self, max_steps=100000):
        while not self.done:
            self.step()
            if self.nsteps > max_steps:
                raise VMReject("too many steps")
        return self.value

    # --- shape observation -----------------------------------------------------------
    def depth(self):
        return sum(len(s) + 1 for s in self.metastack) + len(self.stack)

    def marks(self):
        pos = []
        d = 0
        for s in self.metastack:
            d += len(s)
            pos.append(d)
            d += 1
        return pos

    def memo_keys(self):
        return set(self.memo)

    # --- overrides -------------------------------------------------------------------
    def _load_frame(self):
        self.read(8)          # lenient framing, like the C unpickler on in-memory data
    dispatch[pickle.FRAME[0]] = _load_frame

    def _load_newobj(self):
        args = self.stack.pop()
        cls = self.stack.pop()
        if not isinstance(cls, Stub):
            raise VMReject("NEWOBJ class is not a global")
        self.append(cls(*args))
    dispatch[pickle.NEWOBJ[0]] = _load_newobj

    def _load_newobj_ex(self):
        kwargs = self.stack.pop()
        args = self.stack.pop()
        cls = self.stack.pop()
        if not isinstance(cls, Stub):
            raise VMReject("NEWOBJ_EX class is not a global")
        self.append(cls(*args, **kwargs))
    dispatch[pickle.NEWOBJ_EX[0]] = _load_newobj_ex


def run_ref(data):
    """Run the reference VM to completion.  Returns (vm, error or None)."""
    vm = RefVM(data)
    try:
        vm.run()
        return vm, None
    except RecursionError as e:
        return vm, e
    except Exception as e:  # the VM rejects this program
        return vm, e


# ----------------------------------------------------------------------------------------
# event multiset comparison (C03) and value comparison (C05)

def call_events(log):
    return [e for e in log.events if e[0] in ("call", "setstate", "pers")]


def import_events(log):
    return [e for e in log.events if e[0] == "import" and e[1] != "builtins"]


def missing_events(ref_log, dec_log):
    """Events of the reference log with no counterpart (multiplicity-aware) in the decompile's
    log.  Returns list of (event, origin)."""
    from collections import Counter
    have = Counter(e for e in dec_log.events if e[0] != "import" or e[1] != "builtins")
    out = []
    for ev, org in zip(ref_log.events, ref_log.origin):
        if ev[0] == "import" and ev[1] == "builtins":
            continue
        if have[ev] > 0:
            have[ev] -= 1
        else:
            out.append((ev, org))
    return out


def shallow_sig(ev):
    """callee identity + arity, ignoring argument values (to tell 'lost' from 'args differ')."""
    if ev[0] == "call":
        callee = ev[1]
        while callee[0] == "obj":
            callee = callee[1]
        if callee[0] == "res":
            callee = ("res", shallow_sig(callee[1]))
        return ("call", callee, len(ev[2][1]))
    if ev[0] == "setstate":
        return ("setstate",)
    if ev[0] == "pers":
        return ("pers",)
    return ev


OPNAME = {op.code.encode("latin-1")[0]: op.name for op in __import__("pickletools").opcodes}

"""Effect observation around one call of repository code: audit events, canaries, sink log,
sys.modules / scratch-directory deltas and a sys.monitoring tripwire on fickling's own frames.
Classification of what was seen is done by classify()."""
import builtins
import importlib
import importlib.abc
import importlib.util
import marshal
import collections.abc
import os
import pickle
import _pickle
import re
import sys
import types

from vp import monitor

TOKEN_RE = re.compile(rb"[A-Za-z_][A-Za-z0-9_]*(?:\.[A-Za-z_][A-Za-z0-9_]*)*")
WRITE_FLAGS = os.O_WRONLY | os.O_RDWR | os.O_CREAT | os.O_TRUNC | os.O_APPEND

CANARY_SRC = '''import os
open(os.path.join(os.path.dirname(__file__), "CANARY_IMPORTED_" + __name__), "w").close()
def f(*a, **k):
    return "canary"
g = f
'''


class FinderLog(importlib.abc.MetaPathFinder):
    def __init__(self):
        self.requests = []
        self.active = False

    def find_spec(self, fullname, path=None, target=None):
        if self.active:
            self.requests.append(fullname)
        return None


class AnsweringEnviron(collections.abc.MutableMapping):
    """os.environ stand-in: whatever variable code *of the library under test* asks for is "set" (to a path in
    the scratch directory); everybody else sees the real environment.  An optional feature switched on by an
    environment variable is thereby switched on, without the harness knowing its name."""

    def __init__(self, real, repo_fickling, scratch):
        self._real = real
        self._repo = repo_fickling
        self._scratch = scratch
        self.asked = []

    def _from_library(self):
        f = sys._getframe(2)
        for _ in range(8):
            if f is None:
                return False
            fn = f.f_code.co_filename
            if fn.startswith(self._repo):
                return True
            f = f.f_back
        return False

    def __getitem__(self, key):
        try:
            return self._real[key]
        except KeyError:
            if isinstance(key, str) and self._from_library():
                self.asked.append(key)
                return os.path.join(self._scratch, "env-" + "".join(c if c.isalnum() else "_" for c in key))
            raise

    def __contains__(self, key):
        try:
            self[key]
            return True
        except KeyError:
            return False

    def __setitem__(self, key, value):
        self._real[key] = value

    def __delitem__(self, key):
        del self._real[key]

    def __iter__(self):
        return iter(self._real)

    def __len__(self):
        return len(self._real)

    def copy(self):
        return dict(self._real)


class EffectWatch:
    def __init__(self, scratch, repo_dir, answering_environ=False):
        self.scratch = scratch
        self.repo_fickling = os.path.join(os.path.realpath(repo_dir), "fickling") + os.sep
        self.environ = None
        if answering_environ:
            self.environ = AnsweringEnviron(os.environ, self.repo_fickling, scratch)
            os.environ = self.environ
        self.finder = FinderLog()
        sys.meta_path.insert(0, self.finder)
        # canary modules: on sys.path, never imported by the harness
        self.canary_dir = os.path.join(scratch, "canaries")
        os.makedirs(os.path.join(self.canary_dir, "vp_canary_1"), exist_ok=True)
        with open(os.path.join(self.canary_dir, "vp_canary_0.py"), "w") as fh:
            fh.write(CANARY_SRC)
        with open(os.path.join(self.canary_dir, "vp_canary_1", "__init__.py"), "w") as fh:
            fh.write(CANARY_SRC)
        with open(os.path.join(self.canary_dir, "vp_canary_1", "sub.py"), "w") as fh:
            fh.write(CANARY_SRC)
        sys.path.insert(0, self.canary_dir)
        # pre-imported canary whose attribute lookups are logged (PEP 562)
        self.loaded_log = []
        m = types.ModuleType("vp_loaded_canary")
        log = self.loaded_log

        def __getattr__(name):
            if name.startswith("__"):
                raise AttributeError(name)
            log.append(name)
            return lambda *a, **k: "loaded-canary"
        m.__getattr__ = __getattr__
        sys.modules["vp_loaded_canary"] = m
        self.trip_hits = []
        self.trip_tokens = frozenset()
        self.trip_active = False
        self._install_tripwire()

    # ---------------------------------------------------------------- tripwire
    def _install_tripwire(self):
        mon = sys.monitoring
        self.tool = 4
        try:
            mon.use_tool_id(self.tool, "vp-tripwire")
        except ValueError:
            self.tool = 3
            mon.use_tool_id(self.tool, "vp-tripwire")
        always = {pickle.load, pickle.loads, _pickle.load, _pickle.loads, pickle.Unpickler, pickle._Unpickler,
                  marshal.loads, os.system, os.popen}
        by_name = {builtins.__import__, importlib.import_module, importlib.util.find_spec}
        evalish = {builtins.eval, builtins.exec}
        prefix = self.repo_fickling
        hits = self.trip_hits

        def on_call(code, offset, callee, arg0):
            if not code.co_filename.startswith(prefix):
                return mon.DISABLE
            if not self.trip_active:
                return None
            try:
                if callee in always:
                    hits.append(("always", getattr(callee, "__qualname__", repr(callee)), code.co_name))
                elif callee in by_name:
                    if isinstance(arg0, str) and self._planted(arg0):
                        hits.append(("resolver", getattr(callee, "__qualname__", "?") + "(" + arg0 + ")", code.co_name))
                elif callee in evalish:
                    txt = arg0 if isinstance(arg0, str) else " ".join(getattr(arg0, "co_names", ()))
                    if isinstance(arg0, (str, types.CodeType)) and any(t in txt for t in self.trip_tokens):
                        hits.append(("eval", callee.__name__ + "(" + str(txt)[:60] + ")", code.co_name))
                elif callee is builtins.getattr and isinstance(arg0, types.ModuleType):
                    if self._planted(arg0.__name__):
                        hits.append(("getattr-module", arg0.__name__, code.co_name))
            except TypeError:       # unhashable callee
                pass
            return None

        mon.register_callback(self.tool, mon.events.CALL, on_call)
        mon.set_events(self.tool, mon.events.CALL)

    def _planted(self, name):
        t = self.trip_tokens
        return name in t or name.split(".")[0] in t

    # ---------------------------------------------------------------- one observation
    def observe(self, fn, data_tokens, tripwire=True):
        """Run fn() under observation.  Returns (outcome, obs) where outcome is ('ret', value) or
        ('exc', exception) and obs the raw observations."""
        import vp_sink
        tokens = frozenset(data_tokens)
        self.trip_tokens = tokens
        del self.trip_hits[:]
        del self.loaded_log[:]
        del vp_sink.LOG[:]
        del self.finder.requests[:]
        n_rec = len(monitor.RECORDER_HITS)
        mods_before = set(sys.modules)
        dir_before = self._listing()
        self.finder.active = True
        self.trip_active = bool(tripwire)
        try:
            with monitor.Recording() as rec:
                try:
                    outcome = ("ret", fn())
                except BaseException as e:       # incl. SystemExit from argparse
                    outcome = ("exc", e)
        finally:
            self.trip_active = False
            self.finder.active = False
        obs = {
            "events": rec.events,
            "new_modules": sorted(set(sys.modules) - mods_before),
            "dir_delta": sorted(self._listing() - dir_before),
            "finder": list(self.finder.requests),
            "sink": list(vp_sink.LOG),
            "loaded_canary": list(self.loaded_log),
            "trip": list(self.trip_hits),
            "recorder": list(monitor.RECORDER_HITS[n_rec:]),
            "tokens": tokens,
        }
        return outcome, obs

    def _listing(self):
        out = set()
        for root, dirs, files in os.walk(self.scratch):
            for n in files + dirs:
                out.add(os.path.join(root, n))
        return out


def tokens_of(data):
    """Dotted identifiers (and their components) occurring in the input bytes."""
    out = set()
    for m in TOKEN_RE.findall(data):
        try:
            s = m.decode("ascii")
        except UnicodeDecodeError:
            continue
        if len(s) < 2:
            continue
        # text opcodes glue their opcode letter to the name that follows (b"cos\nsystem\n", b"ios\n..."),
        # so the name with its first character removed is an input-derived token as well
        for t in (s, s[1:]):
            if len(t) < 2:
                continue
            out.add(t)
            if "." in t:
                out.update(p for p in t.split(".") if len(p) >= 2)
    return out


ALWAYS_EVENTS = ("pickle.find_class", "os.system", "os.exec", "os.posix_spawn", "os.fork", "os.forkpty",
                 "os.spawn", "subprocess.Popen", "socket.", "ctypes.", "os.startfile", "os.kill",
                 "urllib.Request", "ftplib.", "smtplib.", "http.client.", "webbrowser.open", "vp.recorder",
                 "os.putenv", "os.unsetenv", "winreg.", "syslog.")
FS_WRITE_EVENTS = ("os.remove", "os.rename", "os.mkdir", "os.rmdir", "os.truncate", "os.chmod", "os.chown",
                   "os.link", "os.symlink", "shutil.", "os.utime", "tempfile.")


def _is_write_open(ev):
    _, (path, mode, flags) = ev[0], ev[1]
    if isinstance(mode, str) and any(c in mode for c in "wax+"):
        return True
    if isinstance(flags, int) and flags & WRITE_FLAGS:
        return True
    return False


def classify(obs, declared_outputs=(), module_tokens=None):
    """-> list of (key, what).  Classes as in DESIGN.md C01: A always, B iff an input-derived token
    is mentioned, C iff it writes."""
    tokens = obs["tokens"]
    mtok = module_tokens if module_tokens is not None else tokens
    out = []
    declared = {os.path.abspath(p) for p in declared_outputs}

    def planted_module(name):
        if not isinstance(name, str):
            return False
        if name in mtok or name.split(".")[0] in mtok:
            return True
        # a canary name anywhere in a dotted path (e.g. encodings.vp_canary_0 from a codec lookup)
        return any(c.startswith("vp_canary") and c in mtok for c in name.split("."))

    for name, s in obs["events"]:
        if name.startswith(ALWAYS_EVENTS):
            out.append((f"effect:{name}", f"audit event {name}{s!r} raised while analysing the input"[:300]))
        elif name == "exec":
            fn = s[0]
            if isinstance(fn, str) and not fn.startswith("<frozen") and not os.path.exists(fn):
                text = " ".join(s[2]) + " " + " ".join(s[3]) if len(s) > 3 else ""
                if any(t in text for t in tokens if len(t) >= 4) or "vp_marker" in text:
                    out.append(("effect:exec-of-input", f"code derived from the input was executed: {s!r}"[:300]))
        elif name == "import":
            if planted_module(s[0]):
                out.append(("effect:import-of-named-module", f"module {s[0]!r} named by the input was imported"))
        elif name in ("os.listdir", "os.scandir"):
            p = s[0] if s else None
            if isinstance(p, str) and any(t in p for t in mtok if t.startswith("vp_canary")):
                out.append(("effect:path-probe", f"{name}({p!r})"))
        elif name == "open":
            p = s[0]
            if _is_write_open((name, s)):
                if not (isinstance(p, str) and os.path.abspath(p) in declared):
                    out.append(("effect:file-write", f"open{s!r} for writing while analysing the input"[:300]))
            elif isinstance(p, str) and any(t in os.path.basename(p) for t in mtok if t.startswith("vp_canary")):
                out.append(("effect:open-of-named-file", f"open({p!r})"))
        elif name.startswith(FS_WRITE_EVENTS):
            out.append((f"effect:fs:{name}", f"{name}{s!r} while analysing the input"[:300]))
    for n in obs["new_modules"]:
        if planted_module(n):
            out.append(("effect:sys.modules", f"module {n!r} named by the input appeared in sys.modules"))
    for n in obs["finder"]:
        if n.startswith("vp_canary") or ".vp_canary" in n or planted_module(n):
            out.append(("effect:find_spec", f"import machinery was asked for {n!r}, a module named by the input"))
    if obs["sink"]:
        out.append(("effect:sink-call", f"sink callable ran: {obs['sink'][:2]!r}"[:300]))
    if obs["loaded_canary"]:
        out.append(("effect:attribute-resolved", f"attribute(s) {obs['loaded_canary'][:3]} of a module named by the input were looked up"))
    for kind, what, where in obs["trip"]:
        out.append((f"effect:tripwire:{kind}", f"fickling frame {where} called {what}"))
    for lab, a in obs["recorder"]:
        out.append((f"effect:{lab}", f"neutered {lab} was called with {a}"[:300]))
    for p in obs["dir_delta"]:
        if os.path.abspath(p) not in declared and "__pycache__" not in p:
            out.append(("effect:scratch-dir", f"new entry {p!r} in the working directory"))
    # de-duplicate, keep order
    seen, res = set(), []
    for k, w in out:
        if k not in seen:
            seen.add(k)
            res.append((k, w))
    return res

"""Shared driver for the differential properties: feeds every workload program to
diffengine.observe() and hands the observation to the property's oracle."""
from vp import asm, diffengine as de, workload
from vp.core import h

TIERS = {
    "quick": dict(exh=4, deep=None, rand=20000, nat=300),
    "thorough": dict(exh=5, deep=6, rand=400000, nat=6000),
}


def witness(label, data, names=None, **kw):
    w = {"label": label, "hex": data.hex(), "ops": names or de.opcode_names(data)}
    w.update(kw)
    return w


def run(ctx, oracle, deep_need=None, use=("exh", "rand", "nat", "voc", "perop", "torch"), want_exec=True):
    t = TIERS[ctx.tier]
    agg = ctx.agg

    def one(label, data, names=None):
        o = de.observe(data, want_exec=want_exec)
        agg.count("programs")
        agg.count("src:" + label.split("-")[0])
        if o.ref_ok:
            agg.count("refvm_accepted")
        if o.fick_ok:
            agg.count("fickling_accepted")
        elif o.fick_err is not None:
            agg.hist("fickling_refusals", f"{o.fick_stage}:{type(o.fick_err).__name__}")
        if o.ops:
            for n in set(o.ops):
                agg.hist("opcodes_reached", n)
        oracle(ctx, label, data, o, names)

    if ctx.shard == 0:
        for name, prog in workload.directed_programs():
            one("directed-" + name, asm.assemble(prog), asm.names(prog))
    if ctx.shard == 1 % ctx.nshards:
        for name, prog in workload.multiplicity_programs():
            one("directed-" + name, asm.assemble(prog), asm.names(prog))
    if "perop" in use and ctx.shard == 0:
        for name, prog in workload.per_opcode_programs():
            one("perop-" + name, asm.assemble(prog), asm.names(prog))
    if "exh" in use:
        for label, prog in workload.exhaustive(ctx, t["exh"], t["deep"] if deep_need else None, deep_need):
            one(label, asm.assemble(prog), asm.names(prog))
    if "voc" in use:
        for label, data, meta in workload.vocab_fates(ctx):
            one(label, data)
    if "nat" in use:
        for label, data in workload.natural(ctx, t["nat"]):
            one(label, data)
    if "torch" in use and ctx.shard == ctx.nshards - 1:
        try:
            for label, data in workload.torch_pickles(ctx, {"quick": 4, "thorough": 60}[ctx.tier]):
                one(label, data)
        except ImportError as e:
            agg.notes.append({"torch_corpus_unavailable": repr(e)[:120]})
    if "rand" in use:
        for label, prog, data in workload.random_long(ctx, t["rand"]):
            one(label, data, asm.names(prog))


def replay_case(ctx, payload, oracle):
    case = payload["case"]
    data = bytes.fromhex(case["hex"])
    o = de.observe(data)
    oracle(ctx, case.get("label", "replay"), data, o, case.get("ops"))

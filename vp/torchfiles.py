"""Tiny PyTorch files for C16 / C17 (G-pt).  Imports torch lazily (5-13 s per child)."""
import io
import os
import tarfile
import zipfile

MARKERS = ["data.pkl", "constants.pkl", "version", "model.json", "attributes.pkl"]


def models(torch, rng, n):
    """Yield (label, object) : modules, state dicts, nested containers of tensors."""
    nn = torch.nn
    dtypes = [torch.float32, torch.float64, torch.int64, torch.int8, torch.uint8, torch.bool, torch.float16, torch.bfloat16]
    base = [
        ("linear", nn.Linear(3, 2)),
        ("sequential", nn.Sequential(nn.Linear(2, 2), nn.ReLU(), nn.Linear(2, 1))),
        ("state_dict", nn.Linear(4, 3).state_dict()),
        ("plain_tensor", torch.arange(6).reshape(2, 3)),
        ("zero_size", {"empty": torch.zeros(0), "empty2d": torch.zeros(0, 3), "scalar": torch.tensor(1.5)}),
        ("nested", {"a": [torch.ones(2), (torch.zeros(1, dtype=torch.int64), {"deep": torch.eye(2)})], "n": 5, "s": "txt"}),
        ("no_tensors", {"just": ["python", 1, 2.5, None]}),
    ]
    shared = torch.arange(10, dtype=torch.float32)
    base.append(("shared_storage", {"full": shared, "view": shared[2:5], "again": shared, "other": shared.clone()}))
    lin = nn.Linear(2, 2)
    base.append(("tied_weights", {"m1": lin, "m2": lin}))
    w, b, hh = torch.ones(2, 2), torch.zeros(2), torch.arange(3)
    base += [
        ("tuple_dict_list", ({"weight": w, "bias": b}, [hh])),
        ("tuple_list_dict_tensor", ([w, b], {"half": hh}, w.clone())),
        ("tuple_single_dict", ({"only": w},)),
        ("tuple_nested", (({"deep": w},), [b])),
        ("tuple_four", ({"a": w}, [b], hh, "tail")),
        ("list_root", [{"weight": w}, (b, hh)]),
        ("tuple_tensor_first", (w, {"d": b})),
        ("dict_of_tuples", {"pair": ({"x": w}, [b]), "n": (1, 2, 3)}),
        ("set_and_frozenset", {"s": {1, 2}, "f": frozenset({3}), "t": w}),
        ("ordered_dict_root", __import__("collections").OrderedDict([("z", w), ("a", [b])])),
        # storage bytes that look like text / markers: CR LF pairs, NUL, 0xff, ^Z, zip and pickle magic
        ("texty_storage_bytes", {"crlf": torch.tensor([13, 10, 13, 10, 0, 255, 26, 13, 10, 9, 32], dtype=torch.uint8),
                                 "i16": torch.tensor([2573, 0x0A0D, 0x4B50, 0x0403], dtype=torch.int16),
                                 "magic": torch.tensor(list(b"PK\x03\x04\x80\x02." + b"\r\n" * 8), dtype=torch.uint8)}),
    ]
    for lab, obj in base:
        yield lab, obj
    for i in range(n):
        k = rng.randrange(4)
        dt = rng.choice(dtypes)
        shape = tuple(rng.choice([0, 1, 2, 3]) for _ in range(rng.randint(0, 3)))
        t = torch.zeros(shape, dtype=dt) if dt in (torch.bool,) else (torch.ones(shape, dtype=dt) * 3).to(dt)
        if k == 0:
            yield f"rand_tensor_{i}", t
        elif k == 1:
            yield f"rand_dict_{i}", {"t": t, "u": [t, t.clone()], "k": i}
        elif k == 2:
            yield f"rand_module_{i}", nn.Sequential(nn.Linear(rng.randint(1, 4), rng.randint(1, 4)), nn.Tanh())
        else:
            yield f"rand_state_{i}", nn.Conv1d(1, rng.randint(1, 3), 2).state_dict()


def equal_models(torch, a, b, _seen=None):
    """Structural equality incl. tensors (values, dtype, shape)."""
    if isinstance(a, torch.Tensor):
        return isinstance(b, torch.Tensor) and a.dtype == b.dtype and a.shape == b.shape and torch.equal(a, b)
    if isinstance(a, torch.nn.Module):
        return type(a) is type(b) and equal_models(torch, dict(a.state_dict()), dict(b.state_dict())) and repr(a) == repr(b)
    if isinstance(a, dict):
        return isinstance(b, dict) and list(a.keys()) == list(b.keys()) and all(equal_models(torch, a[k], b[k]) for k in a)
    if isinstance(a, (list, tuple)):
        return type(a) is type(b) and len(a) == len(b) and all(equal_models(torch, x, y) for x, y in zip(a, b))
    if isinstance(a, (set, frozenset)):
        return type(a) is type(b) and a == b
    return type(a) is type(b) and a == b


def storage_partition(torch, obj):
    """Partition of the tensors of obj (in traversal order) by shared storage."""
    ts = []

    def walk(o):
        if isinstance(o, torch.Tensor):
            ts.append(o)
        elif isinstance(o, torch.nn.Module):
            for v in o.state_dict().values():
                walk(v)
        elif isinstance(o, dict):
            for v in o.values():
                walk(v)
        elif isinstance(o, (list, tuple)):
            for v in o:
                walk(v)
    walk(obj)
    ids, out = {}, []
    for t in ts:
        try:
            p = t.untyped_storage().data_ptr()
        except Exception:
            p = id(t)
        if t.numel() == 0:
            out.append(-1)
            continue
        out.append(ids.setdefault(p, len(ids)))
    return out


def synthetic_zip(path, markers, deep, leading_junk=b"", trailing=b"", filler=0, dirname="archive", version=b"3\n"):
    """A zip whose member names are exactly the chosen marker names (at root or one directory deep).
    filler: that many small records in front of the markers (torch writes the tensor records first)."""
    buf = io.BytesIO()
    with zipfile.ZipFile(buf, "w") as z:
        z.writestr((dirname + "/" if deep else "") + "readme.txt", b"filler")
        for k in range(filler):
            z.writestr((dirname + "/" if deep else "") + f"data/{k}", b"\x00")
        for m in markers:
            name = (dirname + "/" if deep else "") + m
            if m.endswith(".pkl"):
                body = b"\x80\x02]q\x00(K\x01K\x02e."
            elif m == "version":
                body = version
            else:
                body = b"{}"
            z.writestr(name, body)
    with open(path, "wb") as fh:
        fh.write(leading_junk + buf.getvalue() + trailing)


def legacy_tar(path, scratch):
    os.makedirs(os.path.join(scratch, "storages"), exist_ok=True)
    os.makedirs(os.path.join(scratch, "tensors"), exist_ok=True)
    pk = os.path.join(scratch, "pickle")
    with open(pk, "w") as f:
        f.write("dummy content")
    with tarfile.open(path, mode="w:") as tar:
        tar.add(pk, arcname="pickle")
        tar.add(os.path.join(scratch, "storages"), arcname="storages/")
        tar.add(os.path.join(scratch, "tensors"), arcname="tensors/")
    os.remove(pk)
    os.rmdir(os.path.join(scratch, "storages"))
    os.rmdir(os.path.join(scratch, "tensors"))


def mar_zip(path, torch, big=False):
    buf = io.BytesIO()
    # big: a realistic archive (> 1 MiB, several copy-buffer lengths) instead of a toy one
    torch.save({"w": torch.arange(620 * 620, dtype=torch.float32).reshape(620, 620)} if big else {"w": torch.ones(2)}, buf)
    with zipfile.ZipFile(path, "w") as z:
        z.writestr("MAR-INF/MANIFEST.json", b'{"model": {"modelName": "m"}}')
        z.writestr("model.pt", buf.getvalue())
        z.writestr("handler.py", b"def handle(data, ctx):\n    return data\n")


def small_tar(path, scratch):
    p = os.path.join(scratch, "member.txt")
    with open(p, "w") as f:
        f.write("x")
    with tarfile.open(path, mode="w:") as tar:
        tar.add(p, arcname="member.txt")
    os.remove(p)

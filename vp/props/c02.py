"""C02 - Checked load is fail-closed and loads exactly the bytes it analysed."""
import io
import os
import pickle
import pickletools
import _pickle

from vp import asm, effects, gen, monitor, workload
from vp.core import h

ORIG_LOADS = _pickle.loads          # captured before fickling is imported
ORIG_LOAD = _pickle.load
ORIG_PICKLE_LOAD = pickle.load
ORIG_PICKLE_LOADS = pickle.loads

CONFIG = dict(
    level="exploration",
    rule=("harmless inputs at every reachable verdict (plain data; unused stdlib constructor; vp_sink.hit; "
          "os.getpid / os.path.join; eval('1+1'); each in several opcode spellings and protocols) x six "
          "thresholds x three arming paths (checked loader, global hook + pickle.load, context manager + "
          "pickle.load; thorough adds numpy.load(allow_pickle=True) under the hook) x stream kinds (BytesIO, "
          "BytesIO at offset, real file, buffered file, os.pipe, non-seekable wrapper); inputs on which "
          "analysis fails naturally (unsupported opcodes, truncated, garbage, empty) and by injection "
          "(fault enumeration: an exception of six types raised at the k-th call of every analysis, of "
          "Interpreter.step and of unparse); TOCTOU cases in which the monitor swaps the stream's content "
          "for a sink-calling pickle right after analysis returns, or replaces it by equal-length bytes the "
          "moment the first pass has read through STOP (the bytes reaching pickle.loads must decode to the "
          "opcode list the analyser was given); and bounded-exhaustive arming sequences over {hook, "
          "context(T), exit, remove} with probes at every verdict after every step.  Oracle: return iff independently "
          "computed verdict <= threshold; UnsafeFileError.info['severity'] == verdict; no find_class / sink / "
          "effect events in any non-returning outcome; returned object and sink log equal those of the "
          "original _pickle.loads on the analysed bytes.  A case is one distinct (bytes, threshold, path, "
          "stream kind, fault); non-trivial = verdict above LIKELY_SAFE, or analysis fails, or content swapped."),
    assumptions=[
        "every input is harmless even if executed and passes the harness's load_for_real gate",
        "the verdict is what check_safety returns for the same bytes in the same child (C04 judges verdicts)",
        "stricter-than-asked behaviour is allowed: the context manager and the global hook use LIKELY_SAFE",
        "only content swaps *after* analysis are in scope",
    ],
    min_nontrivial={"quick": 1500, "thorough": 20000},
    nshards={"quick": 8, "thorough": 16},
    timeout={"quick": 900, "thorough": 5400},
    required_counters=("reentrant_loads", "threaded_load_rounds", "threaded_yields_injected", "worker_thread_loads", "rewritten_file_loads", "unwritable_report_loads", "gate_checks", "returned_loads_compared", "nonreturning_effect_checks",
                       "failpoints_fired", "toctou_swaps", "executed_vs_analysed_compared", "sequence_probes"),
)

RANKS = ["LIKELY_SAFE", "POSSIBLY_UNSAFE", "SUSPICIOUS", "LIKELY_UNSAFE", "LIKELY_OVERTLY_MALICIOUS",
         "OVERTLY_MALICIOUS"]
ALLOWED_GLOBALS = {("vp_sink", None), ("collections", "OrderedDict"), ("os", "getpid"), ("os.path", "join"),
                   ("posixpath", "join"), ("builtins", "eval"), ("__builtin__", "eval"), ("builtins", "set"),
                   ("__builtin__", "set"), ("builtins", "frozenset"), ("__builtin__", "frozenset"),
                   ("builtins", "bytearray"), ("__builtin__", "bytearray"), ("_codecs", "encode"),
                   ("builtins", "complex"), ("__builtin__", "complex"), ("copyreg", "_reconstructor"),
                   ("copy_reg", "_reconstructor"), ("builtins", "object"), ("__builtin__", "object"),
                   ("builtins", "range"), ("__builtin__", "xrange"), ("builtins", "slice"), ("__builtin__", "slice"),
                   ("builtins", "list"), ("builtins", "dict"), ("__builtin__", "list"), ("__builtin__", "dict"),
                   ("datetime", "date"), ("builtins", "bytes"), ("__builtin__", "bytes"), ("builtins", "tuple"),
                   ("builtins", "str"), ("builtins", "int"), ("builtins", "float")}
HARMLESS_EVAL_SRC = {"1+1", "'vp'", "2*3"}


def _norm_allowed():
    from vp import refvm
    out = set()
    for m, n in ALLOWED_GLOBALS:
        if n is None:
            out.add((m, None))
        else:
            out.add(refvm.norm_global(m, n))
    return out


ALLOWED_NORM = _norm_allowed()


HARMLESS_RESOLVE_ONLY = set()


def _init_resolve_only():
    from vp import refvm
    for m, n in gen.UNLOADED_STDLIB:
        HARMLESS_RESOLVE_ONLY.add(refvm.norm_global(m, n))


def load_for_real_ok(data):
    """Gate for everything the harness lets a real unpickler see: run the bytes on the reference
    VM (stubs, nothing real is resolved) and require that every global it resolves is in the
    harmless allowlist and every eval source is one of the fixed harmless strings."""
    from vp import refvm
    vm, _err = refvm.run_ref(data)
    for ev in vm.log.events:
        if ev[0] == "import":
            m, n = ev[1], ev[2]
            if (m, n) in HARMLESS_RESOLVE_ONLY:
                continue       # resolved and popped only (checked below: never a callee)
            if (m, n) not in ALLOWED_NORM and (m, None) not in ALLOWED_NORM:
                return False
        elif ev[0] == "call" and ev[1][0] == "glob" and (ev[1][1], ev[1][2]) in HARMLESS_RESOLVE_ONLY:
            return False
        elif ev[0] == "call" and ev[1][0] == "glob" and ev[1][1] == "builtins" and ev[1][2] in ("eval", "exec"):
            args = ev[2][1]
            if len(args) != 1 or args[0][0] != "k" or args[0][1] != "str" or eval(args[0][2]) not in HARMLESS_EVAL_SRC:
                return False
    return True


def flagged_inputs():
    """(label, bytes) harmless pickles for every reachable verdict, in several spellings."""
    out = []
    out.append(("suspicious", b"ccollections\nOrderedDict\n(tR0N."))
    out.append(("suspicious-p2", b"\x80\x02ccollections\nOrderedDict\n)R0K\x05."))
    for args in (["x"], [1, "y"], []):
        for r, c in (("GLOBAL", "REDUCE"), ("STACK_GLOBAL", "REDUCE"), ("GLOBAL", "OBJ"), ("INST", "INST"),
                     ("GLOBAL", "NEWOBJ")):
            name = "K" if c in ("NEWOBJ",) else "hit"
            call = gen.make_call(r, c, "vp_sink", name, args)
            for fate in ("result", "pop", "in_list", "under_result"):
                for fr in ("none", "proto2", "proto4frame"):
                    out.append((f"unsafe-sink-{c}-{fate}-{fr}", gen.frame(gen.apply_fate(call, fate), fr)))
    # refused loads that also name stdlib submodules whose parent package is not imported yet: nothing named
    # in a refused pickle may have been resolved - not even looked up by the import system
    for (m, n) in gen.UNLOADED_STDLIB:
        out.append(("unsafe-plus-unloaded-stdlib", b"c" + m.encode() + b"\n" + n.encode() + b"\n0cvp_sink\nhit\n(K\x01tR."))
    out.append(("lom-getpid", b"cos\ngetpid\n(tR."))
    out.append(("lom-getpid-obj", b"(cos\ngetpid\no."))
    out.append(("lom-join", b"cos.path\njoin\n(S'a'\nS'b'\ntR."))
    out.append(("lom-join-sg", gen.frame(gen.make_call("STACK_GLOBAL", "REDUCE", "os.path", "join", ["a", "b"]) + b".", "proto4")))
    for src in sorted(HARMLESS_EVAL_SRC):
        out.append(("om-eval", b"c__builtin__\neval\n(" + gen.arg_bytes([src]) + b"tR."))
        out.append(("om-eval-obj", b"(cbuiltins\neval\n" + gen.arg_bytes([src]) + b"o."))
        out.append(("om-eval-inst-pop", b"(" + gen.arg_bytes([src]) + b"i__builtin__\neval\n0N."))
    import vp_sink
    k = vp_sink.K()
    k.a = [1, {2}]
    for v in (k, [vp_sink.KReduce(7), 1], vp_sink.KSetState(), {"m": vp_sink.KNewArgs(1, "two")}):
        for lab, b in gen.natural_pickles(v):
            out.append(("unsafe-nat-" + lab, b))
    return out


def failing_inputs():
    return [("fail-float", b"F1.5\n."), ("fail-float-in-call", b"cvp_sink\nhit\n(F1.5\ntR."),
            ("fail-bytearray8", pickle.dumps(bytearray(b"x"), 5)), ("fail-ext", b"\x82\x01."),
            ("fail-persid", b"Pabc\n."), ("fail-truncated", pickle.dumps([1, 2, 3], 2)[:-3]),
            ("fail-truncated-call", b"cvp_sink\nhit\n(K\x01t"), ("fail-garbage", b"\xfe\xfd\xfc"),
            ("fail-empty", b""), ("fail-nostop", b"K\x01"), ("fail-stack-underflow", b"0."),
            ("fail-append-nonlist", b"cvp_sink\nK\n)\x81K\x01a."),
            ("fail-unsupported-then-call", b"cvp_sink\nhit\n(\x96" + (1).to_bytes(8, "little") + b"xtR.")] + [
        # bytes the opcode reader rejects after consuming them, with a complete flagged pickle right behind
        (f"fail-junk-prefix-{i}", pre + b"cvp_sink\nhit\n(K\x01tR.")
        for i, pre in enumerate((b"\xff", b"\x00", b"\n", b" ", b"\x00\x00\x00", b"Sabc\n", b"I1x\n", b"\x80"))]


STREAMS = ["bytesio", "bytesio@k", "file", "buffered", "pipe", "wrapper"]


class NonSeekable(io.RawIOBase):
    def __init__(self, data):
        self._b = io.BytesIO(data)

    def readable(self):
        return True

    def seekable(self):
        return False

    def readinto(self, b):
        return self._b.readinto(b)

    def swap(self, data):
        self._b = io.BytesIO(data)


def make_stream(ctx, kind, data):
    """-> (stream, swap(new_bytes), cleanup)"""
    if kind == "bytesio":
        s = io.BytesIO(data)

        def swap(nb):
            pos = s.tell()
            s.seek(0)
            s.truncate()
            s.write(nb)
            s.seek(0 if pos else 0)
        return s, swap, s.close
    if kind == "bytesio@k":
        s = io.BytesIO(b"JUNK!" + data)
        s.seek(5)

        def swap(nb):
            s.seek(0)
            s.truncate()
            s.write(b"JUNK!" + nb)
            s.seek(5)
        return s, swap, s.close
    if kind in ("file", "buffered"):
        path = os.path.join(ctx.scratch, "c02_in.pkl")
        with open(path, "wb") as fh:
            fh.write(data)
        s = open(path, "rb", buffering=0 if kind == "file" else 4096)

        def swap(nb):
            with open(path, "wb") as fh:
                fh.write(nb)
            s.seek(0)

        def cleanup():
            s.close()
            if os.path.exists(path):
                os.remove(path)
        return s, swap, cleanup
    if kind == "pipe" and len(data) <= 60000:      # (a pipe buffer is 64 kB; larger inputs go to the wrapper kind)
        r, w = os.pipe()
        os.write(w, data)
        os.close(w)
        s = os.fdopen(r, "rb", buffering=0)
        return s, None, s.close
    s = NonSeekable(data)
    return s, s.swap, s.close


SWAPPED = b"cvp_sink\nhit\n(S'SWAPPED'\ntR."


class PassSwapStream(io.BytesIO):
    """Seekable stream whose content is replaced (by equal-length bytes) as soon as a read has
    delivered the last byte of the pickle for the first time, i.e. right after the first pass."""

    def __init__(self, first, second, agg):
        super().__init__(first)
        self._end = len(first)
        self._second = second
        self._agg = agg
        self.swapped = False

    def _maybe_swap(self):
        if not self.swapped and self.tell() >= self._end:
            self.swapped = True
            pos = self.tell()
            self.seek(0)
            self.write(self._second)
            self.seek(pos)
            self._agg.count("toctou_swaps")

    def read(self, *a):
        r = super().read(*a)
        self._maybe_swap()
        return r

    def readline(self, *a):
        r = super().readline(*a)
        self._maybe_swap()
        return r

    def readinto(self, b):
        r = super().readinto(b)
        self._maybe_swap()
        return r


# pairs (analysed, swapped-in) of equal length; both harmless, both decodable
PASS_SWAP_PAIRS = [
    ("earlier-constant", b"cvp_sink\nhit\n(S'AAAA'\ntR.", b"cvp_sink\nhit\n(S'BBBB'\ntR."),
    ("earlier-global", b"cvp_sink\nhit\n(K\x01tR.", b"cvp_sink\nhot\n(K\x01tR."),
    ("earlier-binunicode", b"\x80\x02]q\x00(X\x04\x00\x00\x00aaaaq\x01K\x01e.", b"\x80\x02]q\x00(X\x04\x00\x00\x00bbbbq\x01K\x01e."),
    ("safe-to-call", b"\x80\x02(X\x03\x00\x00\x00abcX\x06\x00\x00\x00defghiK\x01l.", b"\x80\x02cvp_sink\nhit\n(X\x02\x00\x00\x00zztR0N."),
    ("last-opcode-inst", b"(S'x'\nivp_sink\nhit\n.", b"(S'x'\nivp_sink\nhot\n."),
    ("last-opcode-string", b"X\x04\x00\x00\x00aaaa.", b"X\x04\x00\x00\x00bbbb."),
]


def run_case(ctx, mods, watch, label, data, thr, path, kind, fault=None, swap=False):
    fickling, f, analysis, loader, hook, U = mods
    if isinstance(swap, (tuple, list)):
        run_case.second = bytes.fromhex(swap[1]) if isinstance(swap[1], str) else swap[1]
        swap = swap[0]
    agg = ctx.agg
    key = h(repr((data, thr, path, kind, fault, swap)).encode())
    if key in agg._seen:
        return
    verdict = analysed = None      # the independent verdict is computed *after* the observed call, so that
    #                                nothing the harness itself triggers (lazy imports ...) hides an effect
    if not load_for_real_ok(data):
        agg.inconclusive.append(f"harness bug: input {label} does not pass the load_for_real gate")
        return
    w = {"label": label, "hex": data.hex(), "threshold": thr, "path": path, "stream": kind, "fault": fault,
         "swap": swap if swap != "after-first-pass" else ["after-first-pass", run_case.second.hex()], "verdict": verdict}
    if swap == "after-first-pass":
        stream = PassSwapStream(data, run_case.second, agg)
        swapper, cleanup = None, stream.close
    else:
        stream, swapper, cleanup = make_stream(ctx, kind, data)
        if swap and swapper is None:
            cleanup()
            return
    eff_thr = thr if path == "loader" else "LIKELY_SAFE"
    sev = getattr(analysis.Severity, thr)
    undo = []
    fired = []
    try:
        if fault is not None:
            undo.append(install_fault(mods, fault, fired))
        captured = {"analysed": None, "executed": []}
        orig_analyze0 = analysis.Analyzer.analyze

        def analyze_capture(self, pickled):
            captured["analysed"] = [(op.info.name, op.arg) for op in pickled]
            captured["analysed_bytes"] = pickled.dumps()
            return orig_analyze0(self, pickled)
        analysis.Analyzer.analyze = analyze_capture
        undo.append(lambda: setattr(analysis.Analyzer, "analyze", orig_analyze0))
        real_pickle = loader.pickle

        class PickleProxy:
            def __getattr__(self, n):
                return getattr(real_pickle, n)

            def loads(self, data, *a, **k):
                captured["executed"].append(bytes(data))
                return real_pickle.loads(data, *a, **k)
        loader.pickle = PickleProxy()
        undo.append(lambda: setattr(loader, "pickle", real_pickle))
        if swap == "after-first-pass":
            pass
        elif swap:
            orig_analyze = analysis.Analyzer.analyze

            def analyze_then_swap(self, pickled):
                r = orig_analyze(self, pickled)
                swapper(SWAPPED)
                agg.count("toctou_swaps")
                return r
            analysis.Analyzer.analyze = analyze_then_swap
            undo.append(lambda: setattr(analysis.Analyzer, "analyze", orig_analyze))

        def call():
            if path == "loader":
                return fickling.load(stream, max_acceptable_severity=sev)
            if path == "hook":
                fickling.always_check_safety()
                try:
                    return pickle.load(stream)
                finally:
                    hook.remove_hook()
            if path == "context":
                with fickling.check_safety():
                    return pickle.load(stream)
            if path == "numpy":
                import numpy
                fickling.always_check_safety()
                try:
                    return numpy.load(stream, allow_pickle=True)
                finally:
                    hook.remove_hook()
            raise ValueError(path)

        outcome, obs = watch.observe(call, effects.tokens_of(data), tripwire=False)
    finally:
        for u in reversed(undo):
            u()
        hook.remove_hook()
        cleanup()
    try:
        verdict = analysis.check_safety(f.Pickled.load(data)).severity.name
        analysed = f.Pickled.load(data).dumps()
    except Exception:
        verdict, analysed = None, None
    w["verdict"] = verdict
    agg.case(key, verdict != "LIKELY_SAFE" or fault is not None or bool(swap),
             {"label": label, "verdict": verdict, "threshold": thr, "path": path, "stream": kind, "fault": fault,
              "swap": bool(swap)})
    agg.count("gate_checks")
    if swap == "after-first-pass" and captured.get("analysed_bytes") is not None:
        # the stream changed under the parser: "the bytes analysed" are whatever fickling handed to its
        # analyser; the gate and the comparison with the stock unpickler are judged against those
        analysed = captured["analysed_bytes"]
        try:
            real_an = orig_analyze0
            verdict = analysis.check_safety(f.Pickled.load(analysed)).severity.name
        except Exception:
            verdict = None
        w["verdict"] = verdict
        if not load_for_real_ok(analysed):
            agg.inconclusive.append("harness: pass-swap mixture fails the load_for_real gate")
            return
    if captured["executed"] and captured["analysed"] is not None:
        agg.count("executed_vs_analysed_compared")
        try:
            ex = [(o.name, a) for o, a, _ in pickletools.genops(captured["executed"][-1])]
        except Exception:
            ex = None
        an = captured["analysed"]
        if ex != an:
            idx = next((i for i, (x, y) in enumerate(zip(ex or [], an)) if x != y), min(len(ex or []), len(an)))
            last = len(an) - 2
            where = "last-opcode-before-stop" if idx == last else "earlier-opcode"
            agg.violation(f"executed-not-analysed:{where}",
                          f"the bytes handed to the unpickler decode to {str((ex or [None] * (idx + 1))[idx])[:80]} at opcode {idx} "
                          f"where the analysed program has {str(an[idx] if idx < len(an) else None)[:80]}",
                          dict(w, second_hex=getattr(run_case, "second", b"").hex() if swap == "after-first-pass" else None))
    if fault is not None:
        if fired:
            agg.count("failpoints_fired")
            agg.hist("failpoints", f"{fault[0]}:{fault[1]}:k={fault[2]}:fired")
        else:
            agg.hist("failpoints", f"{fault[0]}:{fault[1]}:k={fault[2]}:not-reached")
    returned = outcome[0] == "ret"
    agg.hist("outcomes", ("ret" if returned else type(outcome[1]).__name__) + "@" + path)
    finds = [s for n, s in obs["events"] if n == "pickle.find_class"]
    if returned:
        if verdict is None or (fault is not None and fired):
            agg.violation(f"returned-although-analysis-failed:{path}",
                          "the checked load returned an object although analysis of these bytes does not complete", w)
            return
        if RANKS.index(verdict) > RANKS.index(eff_thr):
            agg.violation(f"returned-above-threshold:{path}",
                          f"returned an object although verdict {verdict} > accepted {eff_thr}", w)
            return
        # compare with the stock unpickler on the analysed bytes
        import vp_sink
        got_log = list(obs["sink"])
        del vp_sink.LOG[:]
        try:
            want = ORIG_LOADS(analysed)
        except Exception as e:
            want = ("EXC", type(e).__name__)
        want_log = list(vp_sink.LOG)
        del vp_sink.LOG[:]
        agg.count("returned_loads_compared")
        if any("SWAPPED" in repr(x) for x in got_log) or "SWAPPED" in repr(outcome[1]):
            agg.violation(f"toctou:{path}:{kind}", "the bytes executed are not the bytes analysed: the swapped-in payload ran", w)
            return
        if got_log != want_log:
            agg.violation(f"effects-differ:{path}", f"sink log {got_log!r} != stock unpickler's {want_log!r}"[:300], w)
        elif not _eq(outcome[1], want):
            agg.violation(f"value-differs:{path}", f"returned {outcome[1]!r}, stock unpickler gives {want!r}"[:300], w)
        return
    # non-returning outcome
    exc = outcome[1]
    chain = []
    e = exc
    while e is not None and len(chain) < 6:
        chain.append(e)
        e = e.__cause__ or e.__context__
    unsafe = next((x for x in chain if isinstance(x, U)), None)
    permitted = (verdict is not None and fault is None and RANKS.index(verdict) <= RANKS.index(eff_thr))
    if permitted and unsafe is None:
        # the load was rightly attempted; the exception must be the stock unpickler's own
        import vp_sink
        got_log = list(obs["sink"])
        del vp_sink.LOG[:]
        try:
            ORIG_LOADS(analysed)
            want_exc = None
        except BaseException as e2:
            want_exc = e2
        want_log = list(vp_sink.LOG)
        del vp_sink.LOG[:]
        agg.count("permitted_loads_that_raise")
        if path == "numpy":
            return
        if want_exc is None:
            agg.violation(f"refused-at-or-below-threshold:{path}",
                          f"verdict {verdict} <= accepted {eff_thr}, the stock unpickler loads these bytes, but the "
                          f"checked load raised {type(exc).__name__}", w)
        elif type(want_exc) is not type(exc) and not any(type(x) is type(want_exc) for x in chain):
            agg.violation(f"permitted-load-raises-differently:{path}",
                          f"checked load raised {type(exc).__name__}, stock unpickler raises {type(want_exc).__name__}", w)
        elif any("SWAPPED" in repr(x) for x in got_log):
            agg.violation(f"toctou:{path}:{kind}", "the swapped-in payload ran", w)
        elif got_log != want_log:
            agg.violation(f"effects-differ:{path}", f"sink log {got_log!r} != stock unpickler's {want_log!r}"[:300], w)
        return
    agg.count("nonreturning_effect_checks")
    if finds or obs["sink"]:
        agg.violation(f"effect-without-return:{path}",
                      f"load did not return ({type(exc).__name__}) but globals were resolved / called: "
                      f"find_class={finds[:3]} sink={obs['sink'][:2]}"[:300], w)
    for k, what in effects.classify(obs, declared_outputs=()):
        if k.startswith(("effect:pickle.find_class", "effect:sink-call")):
            continue
        if k in ("effect:scratch-dir", "effect:file-write"):
            continue      # the harness's own stream files
        agg.violation(f"{k}@nonreturning:{path}", what, w)
    if verdict is not None and fault is None and not swap:
        if permitted:
            agg.violation(f"refused-at-or-below-threshold:{path}",
                          f"verdict {verdict} <= accepted {eff_thr} but the load raised the unsafe-file error", w)
        elif unsafe is None:
            agg.violation(f"wrong-error:{path}", f"verdict above threshold but raised {type(exc).__name__}, not the unsafe-file error", w)
        elif unsafe.info.get("severity") != verdict:
            agg.violation(f"error-verdict-differs:{path}", f"UnsafeFileError carries {unsafe.info.get('severity')}, verdict is {verdict}", w)


def _eq(a, b):
    try:
        import numpy
        if isinstance(a, numpy.ndarray):
            a = a.tolist() if a.dtype != object else a.item() if a.shape == () else list(a)
    except Exception:
        pass
    try:
        return type(a) is type(b) and a == b
    except Exception:
        return False


FAULT_EXC = {"ValueError": ValueError, "AttributeError": AttributeError, "RecursionError": RecursionError,
             "MemoryError": MemoryError, "KeyError": KeyError, "TypeError": TypeError}


def install_fault(mods, fault, fired):
    """fault = (site, exception name, k): raise at the k-th call of the site.  Returns undo()."""
    fickling, f, analysis, loader, hook, U = mods
    site, excn, k = fault
    exc = FAULT_EXC[excn]
    state = {"n": 0}
    if site.startswith("analysis:"):
        cls = getattr(analysis, site.split(":", 1)[1], None) or getattr(__import__("fickling.ml", fromlist=["x"]), site.split(":", 1)[1])
        owner, attr = cls, "analyze"
    elif site == "Interpreter.step":
        owner, attr = f.Interpreter, "step"
    elif site == "unparse":
        owner, attr = analysis, "unparse"
    elif site == "Pickled.dumps":
        owner, attr = f.Pickled, "dumps"
    else:
        raise ValueError(site)
    orig = owner.__dict__[attr] if isinstance(owner, type) else getattr(owner, attr)

    def wrapper(*a, **kw):
        state["n"] += 1
        if state["n"] == k:
            fired.append(1)
            raise exc(f"vp injected fault at {site} call {k}")
        fn = orig.__func__ if isinstance(orig, (staticmethod, classmethod)) else orig
        return fn(*a, **kw)
    setattr(owner, attr, wrapper)
    return lambda: setattr(owner, attr, orig)


def cases(ctx, mods):
    analysis = mods[2]
    tier = ctx.tier
    paths = ["loader", "hook", "context"] + (["numpy"] if tier == "thorough" else [])
    rng = asm.rng_for(ctx.seed, "c02")
    flagged = flagged_inputs()
    benign = []
    from vp.props.c05 import is_plain
    for v in workload.values(ctx.seed, {"quick": 25, "thorough": 400}[tier], plain_only=True):
        if not is_plain(v):
            continue
        for lab, b in gen.natural_pickles(v):
            benign.append(("safe-" + lab, b))
    # 1. gate table
    for label, data in flagged + benign:
        for path in paths:
            thrs = RANKS if path == "loader" else ["LIKELY_SAFE"]
            for thr in thrs:
                kinds = STREAMS if tier == "thorough" else [rng.choice(STREAMS)]
                if path == "numpy":
                    kinds = [k for k in kinds if k in ("bytesio", "file", "buffered")]   # numpy.load itself seeks
                for kind in kinds:
                    yield label, data, thr, path, kind, None, False
    # 2. analysis fails naturally
    for label, data in failing_inputs():
        for path in paths:
            for kind in (STREAMS if tier == "thorough" else ["bytesio", "file", "wrapper"]):
                if path == "numpy" and kind not in ("bytesio", "file", "buffered"):
                    continue
                yield label, data, "OVERTLY_MALICIOUS" if path == "loader" else "LIKELY_SAFE", path, kind, None, False
    for label, data in flagged[:40]:
        for cname, cd in gen.corruptions(data, asm.rng_for(ctx.seed, "c02c" + label), budget=6):
            if load_for_real_ok(cd) and b"vp_sink" in data:
                yield label + "~" + cname, cd, "OVERTLY_MALICIOUS", "loader", "bytesio", None, False
                yield label + "~" + cname, cd, "LIKELY_SAFE", "loader", "file", None, False
                yield label + "~" + cname, cd, "LIKELY_SAFE", "hook", "bytesio", None, False
    # 3. injected failures (fault enumeration)
    sites = ["analysis:" + type(a).__name__ for a in analysis.Analysis.ALL] + ["Interpreter.step", "unparse", "Pickled.dumps"]
    targets = [("om-eval", b"c__builtin__\neval\n(S'1+1'\ntR."), ("unsafe-sink", b"cvp_sink\nhit\n(K\x01tR."),
               ("safe-list", pickle.dumps([1, 2, {"a": 3}], 2))]
    for site in sites:
        for excn in FAULT_EXC:
            for k in ((1, 2, 5) if site == "Interpreter.step" else (1, 2) if site == "unparse" else (1,)):
                for label, data in targets:
                    for path in paths[:3]:
                        if tier == "quick" and excn not in ("ValueError", "RecursionError", "MemoryError") and path != "loader":
                            continue
                        yield label, data, "OVERTLY_MALICIOUS" if path == "loader" else "LIKELY_SAFE", path, "bytesio", (site, excn, k), False
    # 4a. TOCTOU: content replaced right after the first pass over the stream has read through STOP
    for name, first, second in PASS_SWAP_PAIRS:
        for path in paths[:3]:
            for thr in (["LIKELY_SAFE", "OVERTLY_MALICIOUS"] if path == "loader" else ["LIKELY_SAFE"]):
                yield "passswap-" + name, first, thr, path, "pass-swap", None, ("after-first-pass", second)
    # 4. TOCTOU
    for label, data in benign[:30 if tier == "quick" else 300] + [x for x in flagged if x[0].startswith(("suspicious", "unsafe-sink-REDUCE-result"))]:
        for path in paths[:3]:
            for kind in ("bytesio", "bytesio@k", "file", "buffered", "wrapper"):
                yield label, data, "LIKELY_UNSAFE" if path == "loader" else "LIKELY_SAFE", path, kind, None, True


SEQ_OPS = ["hook", "ctx:LIKELY_SAFE", "ctx:SUSPICIOUS", "ctx:OVERTLY_MALICIOUS", "exit", "remove"]
SEQ_PROBES = [("suspicious", b"ccollections\nOrderedDict\n(tR0N."), ("unsafe-sink", b"cvp_sink\nhit\n(K\x01tR."),
              ("lom-getpid", b"cos\ngetpid\n(tR."), ("om-eval", b"c__builtin__\neval\n(S'1+1'\ntR.")]


def run_sequence(ctx, mods, hist):
    """Arming paths interleaved: the accepted severity in force for a probe is that of the innermost
    active arming (hook: LIKELY_SAFE; context: its configured severity, or stricter).  A probe above it
    must not return - whatever other contexts with more permissive thresholds were entered and left."""
    import itertools  # noqa: F401
    fickling, f, analysis, loader, hook, U = mods
    from fickling.context import FicklingContextManager
    import vp_sink
    agg = ctx.agg
    key = h(("seq|" + ",".join(hist)).encode())
    if not agg.case(key, True, {"arming_sequence": hist}):
        return
    stack, cms, current = [], [], None
    try:
        for op in hist:
            if op == "hook":
                fickling.always_check_safety()
                current = "LIKELY_SAFE"
            elif op.startswith("ctx:"):
                t = op[4:]
                cm = FicklingContextManager(max_acceptable_severity=getattr(analysis.Severity, t))
                stack.append(current)
                cm.__enter__()
                cms.append(cm)
                current = t
            elif op == "exit":
                if not cms:
                    continue
                cms.pop().__exit__(None, None, None)
                current = stack.pop()
            elif op == "remove":
                hook.remove_hook()
                current = None
            if current is None:
                continue
            for plabel, data in SEQ_PROBES:
                verdict = analysis.check_safety(f.Pickled.load(data)).severity.name
                del vp_sink.LOG[:]
                try:
                    pickle.load(io.BytesIO(data))
                    returned = True
                except Exception:
                    returned = False
                ran = bool(vp_sink.LOG)
                del vp_sink.LOG[:]
                agg.count("sequence_probes")
                if (returned or ran) and RANKS.index(verdict) > RANKS.index(current):
                    agg.violation("returned-above-threshold:arming-sequence",
                                  f"after {hist[:hist.index(op) + 1]} the accepted severity in force is {current}, yet a "
                                  f"{verdict} pickle was loaded through pickle.load",
                                  {"sequence": hist, "probe": plabel, "hex": data.hex()})
                    return
    finally:
        while cms:
            try:
                cms.pop().__exit__(None, None, None)
            except Exception:
                pass
        hook.remove_hook()
        pickle.load, pickle.loads = ORIG_PICKLE_LOAD, ORIG_PICKLE_LOADS
        _pickle.load, _pickle.loads = ORIG_LOAD, ORIG_LOADS


def sequences(ctx):
    import itertools
    L = {"quick": 3, "thorough": 5}[ctx.tier]
    idx = 0
    for n in range(1, L + 1):
        for hist in itertools.product(SEQ_OPS, repeat=n):
            depth, ok = 0, True
            for op in hist:
                if op.startswith("ctx:"):
                    depth += 1
                elif op == "exit":
                    if depth == 0:
                        ok = False
                        break
                    depth -= 1
            if not ok or depth > 3:
                continue
            idx += 1
            if idx % ctx.nshards == ctx.shard:
                yield list(hist)


def setup(ctx):
    _init_resolve_only()
    import fickling
    import fickling.fickle as f
    import fickling.analysis as analysis
    import fickling.loader as loader
    import fickling.hook as hook
    from fickling.exception import UnsafeFileError
    watch = effects.EffectWatch(ctx.scratch, os.environ.get("VERIF_REPO", "/repo"))
    watch.trip_active = False
    return (fickling, f, analysis, loader, hook, UnsafeFileError), watch


def file_rewrite_histories(ctx, mods):
    """One path on disk, loaded through the checked loader, rewritten in place (same inode, same size, modification time
    put back) with other content, loaded again: each load is judged on the bytes it finds - whatever the loader
    remembers about a *file* does not stand for its *content*."""
    import vp_sink
    fickling, f, analysis, loader, hook, U = mods
    agg = ctx.agg
    benign = [pickle.dumps([1, 2, {"k": "v"}], 2), pickle.dumps({"w": list(range(50))}, 4), b"(lp0\nI1\naI2\na."]
    flagged = b"cvp_sink\nhit\n(S'SWAPPED'\ntR."
    idx = 0
    for bi, good in enumerate(benign):
        for path_kind in ("loader", "hook", "context"):
            for order in ("benign-then-flagged", "flagged-then-benign", "benign-benign-flagged"):
                idx += 1
                if idx % ctx.nshards != ctx.shard:
                    continue
                size = max(len(good), len(flagged)) + 16
                contents = {"b": good + b"\x00" * (size - len(good)), "f": flagged + b"\x00" * (size - len(flagged))}
                seq = {"benign-then-flagged": "bf", "flagged-then-benign": "fb", "benign-benign-flagged": "bbf"}[order]
                p = os.path.join(ctx.scratch, "c02_rewritten.pkl")
                key = h(f"rewrite|{bi}|{path_kind}|{order}".encode())
                agg.case(key, True, {"label": "file-rewritten-in-place", "path": path_kind, "order": order})
                w = {"label": "file-rewritten-in-place", "path": path_kind, "order": order, "size": size}
                stamp = None
                try:
                    for step, which in enumerate(seq):
                        if stamp is None:
                            with open(p, "wb") as fh:
                                fh.write(contents[which])
                            st = os.stat(p)
                            stamp = (st.st_atime_ns, st.st_mtime_ns)
                        else:
                            with open(p, "r+b") as fh:
                                fh.write(contents[which])
                            os.utime(p, ns=stamp)
                        del vp_sink.LOG[:]
                        try:
                            with open(p, "rb") as fh:
                                if path_kind == "loader":
                                    fickling.load(fh)
                                elif path_kind == "hook":
                                    fickling.always_check_safety()
                                    try:
                                        pickle.load(fh)
                                    finally:
                                        hook.remove_hook()
                                else:
                                    with fickling.check_safety():
                                        pickle.load(fh)
                            res = "returned"
                        except U:
                            res = "blocked"
                        except Exception as e:
                            res = "other:" + type(e).__name__
                        ran = bool(vp_sink.LOG)
                        del vp_sink.LOG[:]
                        agg.count("rewritten_file_loads")
                        if which == "f" and (ran or res == "returned"):
                            agg.violation(f"returned-above-threshold:{path_kind}:file-rewritten-in-place",
                                          f"load #{step + 1} of a file rewritten in place ({order}): the flagged content {res}"
                                          f"{' and ran' if ran else ''}", dict(w, step=step + 1))
                            break
                        if which == "b" and res != "returned":
                            agg.violation(f"refused-at-or-below-threshold:{path_kind}:file-rewritten-in-place",
                                          f"load #{step + 1} of a file rewritten in place ({order}): the benign content was {res}",
                                          dict(w, step=step + 1))
                            break
                finally:
                    hook.remove_hook()
                    if os.path.exists(p):
                        os.remove(p)


def unwritable_report(ctx, mods):
    """The optional JSON report cannot be written (its directory is gone, the path is a directory, the file is
    read-only): a refusal stays a refusal - nothing is loaded because a *report* failed."""
    import stat
    import vp_sink
    fickling, f, analysis, loader, hook, U = mods
    agg = ctx.agg
    flagged = [b"cvp_sink\nhit\n(S'REPORT'\ntR.", b"\x80\x04\x8c\x07vp_sink\x8c\x03hit\x93\x8c\x06REPORT\x85R.", b"cvp_sink\nhit\n(F1.5\ntR.",
               b"(S'REPORT'\nivp_sink\nhit\n.", b"ccollections\nOrderedDict\n)R0cvp_sink\nhit\n(S'REPORT'\ntR."]
    ro = os.path.join(ctx.scratch, "c02_readonly.json")
    with open(ro, "w") as fh:
        fh.write("")
    os.chmod(ro, stat.S_IRUSR)
    adir = os.path.join(ctx.scratch, "c02_is_a_dir")
    os.makedirs(adir, exist_ok=True)
    reports = {"missing-directory": os.path.join(ctx.scratch, "c02_gone", "sub", "report.json"), "path-is-a-directory": adir,
               "read-only-file": ro, "empty-string-ok": os.path.join(ctx.scratch, "c02_report_ok.json")}
    idx = 0
    for data in flagged:
        for path_kind in ("loader", "hook", "context"):
            for rname, rpath in reports.items():
                for thr in ("LIKELY_SAFE", "POSSIBLY_UNSAFE"):
                    idx += 1
                    if idx % ctx.nshards != ctx.shard:
                        continue
                    key = h(f"report|{rname}|{path_kind}|{thr}|".encode() + data)
                    agg.case(key, True, {"label": "unwritable-report", "path": path_kind, "report": rname, "threshold": thr})
                    del vp_sink.LOG[:]
                    kw = {"json_output_path": rpath}
                    try:
                        with monitor.Recording() as rec:
                            try:
                                if path_kind == "loader":
                                    fickling.load(io.BytesIO(data), max_acceptable_severity=getattr(analysis.Severity, thr), **kw)
                                elif path_kind == "hook":
                                    fickling.always_check_safety()
                                    pickle.load(io.BytesIO(data), **kw)
                                else:
                                    with fickling.check_safety():
                                        pickle.load(io.BytesIO(data), **kw)
                                res = "returned"
                            except U:
                                res = "blocked"
                            except Exception as e:
                                res = "other:" + type(e).__name__
                    finally:
                        hook.remove_hook()
                    ran = list(vp_sink.LOG)
                    del vp_sink.LOG[:]
                    finds = [s_ for n_, s_ in rec.events if n_ == "pickle.find_class"]
                    agg.count("unwritable_report_loads")
                    if res == "returned" or ran or finds:
                        agg.violation(f"returned-above-threshold:{path_kind}:report-{rname}",
                                      f"flagged pickle, JSON report path {rname}: the load {res}, resolved {finds[:2]}, ran {ran[:1]}",
                                      {"label": "unwritable-report", "hex": data.hex(), "path": path_kind, "report": rname, "threshold": thr})
    os.chmod(ro, stat.S_IRUSR | stat.S_IWUSR)
    for pth in (ro, reports["empty-string-ok"]):
        if os.path.exists(pth):
            os.remove(pth)


def threaded_loads(ctx, mods):
    """Checked loads from several threads at once (a scanning service, data-loader workers): every load
    must end exactly as the same load ends single-threaded - a flagged pickle refused with its own
    verdict and nothing of it run, a benign one returned - whatever another thread is loading meanwhile.
    Yields are injected inside the library's frames (vp.threads) so that the analyses interleave."""
    from vp import threads
    import vp_sink
    fickling, f, analysis, loader, hook, U = mods
    agg = ctx.agg
    fl = [(l, d) for l, d in flagged_inputs() if l.startswith(("unsafe-sink", "suspicious", "lom-getpid"))]
    fl = fl[ctx.shard::max(1, len(fl) // 5)][:5]
    benign = [(f"benign-{i}", pickle.dumps(v, pr)) for i, (v, pr) in enumerate(
        [([1, 2, 3], 2), ({"a": (1, 2.5)}, 4), ("text" * 5, 0), ([[i] for i in range(25)], 5)])]

    def one(data, path, thr):
        try:
            if path == "loader":
                return ("ret", fickling.load(io.BytesIO(data), max_acceptable_severity=getattr(analysis.Severity, thr)))
            if path == "context":
                with fickling.check_safety():
                    return ("ret", pickle.load(io.BytesIO(data)))
            return ("ret", pickle.load(io.BytesIO(data)))
        except U as e:
            return ("unsafe", e.info.get("severity"))
        except Exception as e:
            return ("exc", type(e).__name__)

    rounds = {"quick": 3, "thorough": 25}[ctx.tier]
    for path, thr in (("loader", "LIKELY_SAFE"), ("loader", "SUSPICIOUS"), ("hook", "LIKELY_SAFE")):
        if path == "hook":
            fickling.always_check_safety()
        try:
            inputs = fl[:3] + benign[:3]
            del vp_sink.LOG[:]
            want = [one(d, path, thr) for _, d in inputs]
            want_log = list(vp_sink.LOG)
            # the same question from a worker thread, alone
            for (lab, d), w0 in zip(inputs, want):
                del vp_sink.LOG[:]
                kind, got = threads.in_worker(one, d, path, thr)
                agg.count("worker_thread_loads")
                if kind != "ok" or not _eq(got, w0):
                    agg.violation(f"worker-thread-load-differs:{path}",
                                  f"{lab}: {w0!r} from the main thread, {got!r} from a worker thread"[:300],
                                  {"label": lab, "hex": d.hex(), "threshold": thr, "path": path, "threaded": "worker"})
            for r in range(rounds):
                del vp_sink.LOG[:]
                reps = 4

                def job(d=None):
                    return [one(d, path, thr) for _ in range(reps)]
                res, st = threads.race([(lambda d=d: job(d)) for _, d in inputs], seed=ctx.seed * 1000 + ctx.shard * 100 + r)
                agg.count("threaded_load_rounds")
                agg.count("threaded_yields_injected", st["yields_injected"])
                log = list(vp_sink.LOG)
                for (lab, d), w0, (kind, got) in zip(inputs, want, res):
                    agg.case(h(repr((lab, path, thr, r, ctx.shard)).encode()), True, {"threaded": path})
                    wit = {"label": lab, "hex": d.hex(), "threshold": thr, "path": path, "threaded": "race",
                           "others": [x.hex() for _, x in inputs]}
                    if kind != "ok":
                        agg.violation(f"threaded-load-differs:{path}", f"{lab}: thread ended with {kind} {got!r}"[:300], wit)
                        continue
                    bad = next((g for g in got if not _eq(g, w0)), None)
                    if bad is not None:
                        agg.violation(f"threaded-load-differs:{path}",
                                      f"{lab}: {w0!r} single-threaded, {bad!r} while other threads load other pickles"[:300], wit)
                want_calls = sorted(repr(x) for x in want_log) * reps
                if sorted(repr(x) for x in log) != sorted(want_calls):
                    agg.violation(f"threaded-load-effects-differ:{path}",
                                  f"calls made during the concurrent loads {log[:3]!r} are not {reps} x the single-threaded ones {want_log[:3]!r}"[:300],
                                  {"path": path, "threshold": thr, "threaded": "race", "others": [x.hex() for _, x in inputs]})
        finally:
            if path == "hook":
                hook.remove_hook()
    del vp_sink.LOG[:]


def reentrant_loads(ctx, mods):
    """A checked load whose own unpickling step calls the (hooked) loader again - the pickle names `pickle.load` and
    hands it a stream of inner bytes.  The nested call is a checked load like any other: an inner pickle above the
    accepted severity is refused and nothing of it runs, however the outer one was rated.
    (fixed byte strings only: collections.OrderedDict, pickle.load, io.BytesIO around vp_sink.hit / plain data)"""
    import vp_sink
    fickling, f, analysis, loader, hook, U = mods
    agg = ctx.agg
    inners = [("flagged-sink", b"cvp_sink\nhit\n(S'inner'\ntR."), ("flagged-sink-p2", b"\x80\x02cvp_sink\nhit\nK\x07\x85R."),
              ("benign", pickle.dumps([1, 2, 3], 2))]

    def nested(inner):
        call = b"cpickle\nload\n(cio\nBytesIO\n(B" + len(inner).to_bytes(4, "little") + inner + b"tRtR"
        return [("state-of-ordereddict", b"ccollections\nOrderedDict\n)R" + call + b"b."),
                ("bare-call", call + b"."), ("in-list", b"]" + call + b"a.")]
    for iname, inner in inners:
        try:
            inner_verdict = analysis.check_safety(f.Pickled.load(inner)).severity.name
        except Exception:
            continue
        for oname, outer in nested(inner):
            try:
                outer_verdict = analysis.check_safety(f.Pickled.load(outer)).severity.name
            except Exception:
                continue
            for path in ("hook", "context"):
                key = h(repr(("reentrant", iname, oname, path)).encode())
                if not ctx.mine(key.encode()) or not agg.case(key, True, {"reentrant": oname, "inner": iname, "path": path,
                                                                         "outer_verdict": outer_verdict, "inner_verdict": inner_verdict}):
                    continue
                del vp_sink.LOG[:]
                try:
                    if path == "hook":
                        fickling.always_check_safety()
                        try:
                            out = ("ret", pickle.load(io.BytesIO(outer)))
                        finally:
                            hook.remove_hook()
                    else:
                        with fickling.check_safety():
                            out = ("ret", pickle.load(io.BytesIO(outer)))
                except U as e:
                    out = ("unsafe", e.info.get("severity"))
                except Exception as e:
                    out = ("exc", type(e).__name__)
                finally:
                    pickle.load, pickle.loads = ORIG_PICKLE_LOAD, ORIG_PICKLE_LOADS
                log = list(vp_sink.LOG)
                del vp_sink.LOG[:]
                agg.count("reentrant_loads")
                agg.hist("reentrant_outcomes", f"outer {outer_verdict} inner {inner_verdict}: {out[0]}")
                if inner_verdict != "LIKELY_SAFE" and (log or out[0] == "ret"):
                    agg.violation(f"reentrant-load-unchecked:{path}",
                                  f"outer pickle ({outer_verdict}) calls pickle.load on inner bytes rated {inner_verdict} while the check is armed: "
                                  f"outcome {out!r}, calls made {log[:2]!r}"[:300],
                                  {"label": f"reentrant-{oname}-{iname}", "hex": outer.hex(), "path": path, "threshold": "LIKELY_SAFE", "reentrant": True})


def run_shard(ctx):
    mods, watch = setup(ctx)
    reentrant_loads(ctx, mods)
    threaded_loads(ctx, mods)
    file_rewrite_histories(ctx, mods)
    unwritable_report(ctx, mods)
    for i, c in enumerate(cases(ctx, mods)):
        if i % ctx.nshards != ctx.shard:
            continue
        run_case(ctx, mods, watch, *c)
    for hist in sequences(ctx):
        run_sequence(ctx, mods, hist)
    if pickle.load is not ORIG_PICKLE_LOAD or pickle.loads is not ORIG_PICKLE_LOADS:
        ctx.agg.notes.append("pickle bindings not restored at end of shard (C12's business)")


def replay(ctx, payload):
    mods, watch = setup(ctx)
    c = payload["case"]
    if "sequence" in c:
        run_sequence(ctx, mods, c["sequence"])
        return
    if c.get("threaded"):
        threaded_loads(ctx, mods)
        return
    if c.get("reentrant"):
        ctx.mine = lambda b: True
        reentrant_loads(ctx, mods)
        return
    fault = tuple(c["fault"]) if c.get("fault") else None
    run_case(ctx, mods, watch, c.get("label", "replay"), bytes.fromhex(c["hex"]), c["threshold"], c["path"],
             c["stream"], fault, c.get("swap", False))

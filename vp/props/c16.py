"""C16 - PyTorch payload insertion changes only the model pickle and keeps the model."""
import contextlib
import hashlib
import io
import os
import zipfile

from vp import asm, gen, monitor, torchfiles
from vp.core import h

CONFIG = dict(
    level="exploration",
    rule=("zip-format files saved with torch.save from generated models and state containers (modules, state "
          "dicts, nested dicts / lists / tuples of tensors of eight dtypes and several shapes, zero-size tensors, "
          "shared storages, tied weights; pickle protocols 2-5 incl. model pickles split over several FRAMEs) x payload strings (a sink call carrying strings from the constant "
          "generator: ASCII, Latin-1, BMP, astral, quotes, backslashes, newlines, digits-only) x overwrite in "
          "{False, True}; PyTorchModelWrapper.inject_payload(..., injection='insertion') is run while file "
          "audit events are recorded; the output archive is diffed member by member against the input, its "
          "data.pkl is re-derived with the library's insert_python_exec, and the file is loaded with "
          "torch.load(weights_only=False) to read the sink log and compare tensors, dtypes, shapes and "
          "storage sharing.  A case is one distinct (model file bytes, payload, overwrite); non-trivial = the "
          "model contains at least one tensor."),
    assumptions=[
        "payloads are harmless sink calls (they are really exec'ed by torch.load in this child)",
        "digits-only payload *strings* are C15's business; here every payload is Python source calling the sink",
        "torch.load(weights_only=False) of the pinned torch build is the 'full unpickling' loader",
    ],
    min_nontrivial={"quick": 30, "thorough": 500},
    nshards={"quick": 4, "thorough": 8},
    timeout={"quick": 900, "thorough": 5400},
    required_counters=("positional_calls", "earlier_wrappers_kept_alive", "views_read_before_injection", "reserved_name_cases", "refused_first_attempts", "non_default_protocol_cases", "injections", "members_compared", "loads_compared"),
)


def sha(path):
    with open(path, "rb") as fh:
        return hashlib.sha256(fh.read()).hexdigest()


def payload_texts(ctx):
    base = ["INJ", "é中\U0001f600", "it's \"q\"", "back\\slash", "line1\nline2", "123", "", "tab\t", "x" * 300]
    if ctx.tier == "thorough":
        base += [s for s in gen.STRS if s not in ("\ud800", "\x00")]
    return base


RAW_PAYLOADS = ["0", "1", "123", "None", "pass", "'cpu'", "'storage'", "''", "'weight'", "'0'", "...", "0x1f", "-7"]


REFUSED_PAYLOADS = [["vp_refused = 1", None], None, ("vp_refused = 2", object()), ["vp_refused = 3", ["nested", {1, 2}]],
                    {"vp_refused = 4": {5}}, b"\xff\xfe" * 3 + b"\x00" if False else ["vp_refused = 5", b"\xff", {"k": None}]]


def run_case(ctx, mods, label, obj, text, overwrite, raw=False, proto=None, refused_first=None, touch_first=None, fname=None, earlier=False):
    torch, f, PyTorchModelWrapper = mods
    import vp_sink
    agg = ctx.agg
    src = os.path.join(ctx.scratch, fname or "c16_model.pt")     # (torch names the archive's root directory after the file stem)
    out = os.path.join(ctx.scratch, "c16_injected.pt")
    for p in (src, out):
        if os.path.exists(p):
            os.remove(p)
    if fname:
        label = label + "@" + fname
    if proto is None:
        torch.save(obj, src)
    else:
        torch.save(obj, src, pickle_protocol=proto)
    with open(src, "rb") as fh:
        src_bytes = fh.read()
    payload = text if raw else f"__import__('vp_sink').hit('C16', {text!r})"
    key = h(hashlib.sha256(src_bytes).hexdigest() + "|" + payload + "|" + str(overwrite) + ("|refused%s" % refused_first if refused_first is not None else "") + ("|touch:" + touch_first if touch_first else "") + ("|earlier" if earlier else ""))
    ntens = len(torchfiles.storage_partition(torch, obj))
    if not agg.case(key, ntens > 0, {"model": label, "payload": payload[:80], "overwrite": overwrite, "tensors": ntens}):
        return
    w = {"model": label, "payload": payload[:200], "overwrite": overwrite, "pickle_protocol": proto}
    with zipfile.ZipFile(src) as z:
        in_names = z.namelist()
        in_members = {n: z.read(n) for n in in_names}
    before = sha(src)
    alive = []
    if earlier:
        # history across wrappers: another wrapper, still referenced by the caller (a list of models being processed),
        # has rewritten its own file in place through the same output name before; it is released only after this
        # case's injection (what it does when it goes away is part of what the output has to survive)
        import shutil
        src0 = os.path.join(ctx.scratch, "c16_earlier.pt")
        shutil.copyfile(src, src0)
        try:
            with contextlib.redirect_stdout(io.StringIO()), contextlib.redirect_stderr(io.StringIO()):
                import warnings
                with warnings.catch_warnings():
                    warnings.simplefilter("ignore")
                    w0 = PyTorchModelWrapper(src0)
                    w0.inject_payload(payload, out, injection="insertion", overwrite=True)
                    alive.append(w0)
                    del w0
            agg.count("earlier_wrappers_kept_alive")
        except Exception:
            agg.count("earlier_wrapper_raised")
        if os.path.exists(out):
            os.remove(out)
    listing_before = set(os.listdir(ctx.scratch))
    with monitor.Recording() as rec:
        try:
            with contextlib.redirect_stdout(io.StringIO()), contextlib.redirect_stderr(io.StringIO()):
                import warnings
                with warnings.catch_warnings():
                    warnings.simplefilter("ignore")
                    wrapper = PyTorchModelWrapper(src)
                    if touch_first:
                        # the wrapper's public read-only views, looked at before the injection
                        if "pickled" in touch_first:
                            pk = wrapper.pickled
                            len(pk), pk.dumps(), pk.ast
                        if "formats" in touch_first:
                            wrapper.formats
                        if "validate" in touch_first:
                            wrapper.validate_file_format()
                        agg.count("views_read_before_injection")
                    if refused_first is not None:
                        # history on one wrapper: a call that is refused, then the valid one
                        try:
                            wrapper.inject_payload(REFUSED_PAYLOADS[refused_first], out, injection="insertion", overwrite=False)
                            agg.count("refused_first_was_accepted")
                            refused_ok = False
                        except Exception:
                            agg.count("refused_first_attempts")
                            refused_ok = True
                        if os.path.exists(out):
                            os.remove(out)
                        if not refused_ok:
                            return
                    if int(key[:2], 16) % 3 == 0:
                        # the documented parameters given positionally: (payload, output_path, injection, overwrite)
                        wrapper.inject_payload(payload, out, "insertion", overwrite)
                        agg.count("positional_calls")
                    else:
                        wrapper.inject_payload(payload, out, injection="insertion", overwrite=overwrite)
        except Exception as e:
            agg.violation(f"injection-raises:{type(e).__name__}", f"inject_payload raised on a torch.save zip file: {str(e)[:150]}", w)
            return
    agg.count("injections")
    if earlier:
        import gc
        del alive[:]
        gc.collect()
        s0 = os.path.join(ctx.scratch, "c16_earlier.pt")
        if os.path.exists(s0):
            os.remove(s0)
        listing_before.discard("c16_earlier.pt")
    writes = []
    for name, s in rec.events:
        if name == "open" and isinstance(s[0], str) and os.path.abspath(s[0]) == os.path.abspath(src):
            mode, flags = s[1], s[2]
            if (isinstance(mode, str) and any(c in mode for c in "wax+")) or (isinstance(flags, int) and flags & (os.O_WRONLY | os.O_RDWR)):
                writes.append((name, s))
        elif name in ("os.rename", "os.remove", "os.truncate", "shutil.move") and any(
                isinstance(a, str) and os.path.abspath(a) == os.path.abspath(src) for a in s):
            writes.append((name, s))
    if not overwrite:
        result_path = out
        if sha(src) != before:
            agg.violation("input-modified", "overwrite=False but the input file's content changed", w)
            return
        if writes:
            agg.violation("input-opened-for-writing", f"overwrite=False but the input was opened for writing / renamed: {writes[:2]}"[:300], w)
            return
    else:
        result_path = src
        if os.path.exists(out):
            agg.violation("overwrite-leaves-output", "overwrite=True but the stray output file still exists", w)
            return
        if not os.path.exists(src):
            agg.violation("overwrite-deletes-result", "overwrite=True but the input path no longer exists", w)
            return
        if sha(src) == before:
            agg.violation("overwrite-not-applied", "overwrite=True but the input path still holds the original archive", w)
            return
    extra = set(os.listdir(ctx.scratch)) - listing_before - {os.path.basename(out)}
    if extra:
        agg.violation("stray-files", f"unexpected new files: {sorted(extra)[:4]}", w)
    # archive diff
    try:
        with zipfile.ZipFile(result_path) as z:
            out_names = z.namelist()
            out_members = {n: z.read(n) for n in out_names}
    except Exception as e:
        agg.violation("output-not-a-zip", f"{type(e).__name__}: {str(e)[:100]}", w)
        return
    if out_names != in_names:
        agg.violation("member-names-differ", f"member list changed: {in_names[:6]} -> {out_names[:6]}"[:300], w)
        return
    pkl = [n for n in in_names if n.endswith("/data.pkl")]
    for n in in_names:
        agg.count("members_compared")
        if n in pkl:
            continue
        if out_members[n] != in_members[n]:
            agg.violation("other-member-changed", f"member {n} differs although only the model pickle may change", w)
            return
    if len(pkl) != 1:
        agg.count("no_single_data_pkl")
        return
    exp = f.Pickled.load(in_members[pkl[0]])
    exp.insert_python_exec(payload)
    if out_members[pkl[0]] != exp.dumps():
        agg.violation("data-pkl-not-original-plus-call", "data.pkl is not the original with the injected exec call added", w)
        return
    if out_members[pkl[0]] == in_members[pkl[0]]:
        agg.violation("data-pkl-unchanged", "data.pkl was not modified", w)
        return
    # load: payload exactly once, model equal
    del vp_sink.LOG[:]
    try:
        import warnings
        with warnings.catch_warnings():
            warnings.simplefilter("ignore")
            loaded = torch.load(result_path, weights_only=False)
    except Exception as e:
        agg.violation(f"injected-file-does-not-load:{type(e).__name__}", str(e)[:200], w)
        return
    log = list(vp_sink.LOG)
    del vp_sink.LOG[:]
    agg.count("loads_compared")
    want = [] if raw else [("hit", ("C16", text), {})]
    if log != want:
        agg.violation("payload-run-count", f"sink log {log!r}, expected exactly {want!r}"[:300], w)
        return
    if not torchfiles.equal_models(torch, obj, loaded):
        agg.violation("model-differs", "model loaded from the injected file is not equal to the original", w)
        return
    if torchfiles.storage_partition(torch, obj) != torchfiles.storage_partition(torch, loaded):
        agg.violation("storage-sharing-differs", "tensors share storage differently after injection", w)


def setup():
    import torch
    import fickling  # noqa: F401
    import fickling.fickle as f
    from fickling.pytorch import PyTorchModelWrapper
    return torch, f, PyTorchModelWrapper


def run_shard(ctx):
    mods = setup()
    torch = mods[0]
    torch.manual_seed(ctx.seed)
    rng = asm.rng_for(ctx.seed, "c16")
    n = {"quick": 6, "thorough": 120}[ctx.tier]
    texts = payload_texts(ctx)
    pick = asm.rng_for(ctx.seed, "c16pick")
    i = 0
    for label, obj in torchfiles.models(torch, rng, n):
        for ti, text in enumerate(texts):
            for overwrite in (False, True):
                i += 1
                if ctx.tier == "quick" and pick.random() > 0.9:
                    continue
                if i % ctx.nshards == ctx.shard:
                    run_case(ctx, mods, label, obj, text, overwrite)
    # raw payload strings (they may coincide with strings the model pickle already contains: storage keys
    # '0', '1', ..., 'cpu', dict keys); observed through data.pkl == original + call and a successful load
    for label, obj in list(torchfiles.models(torch, asm.rng_for(ctx.seed, "c16raw"), 0)):
        for ri, text in enumerate(RAW_PAYLOADS):
            i += 1
            if ctx.tier == "quick" and (ri + len(label)) % 3:
                continue
            if i % ctx.nshards == ctx.shard:
                run_case(ctx, mods, label, obj, text, bool(i % 2), raw=True)
    # histories on one wrapper object: a refused inject_payload call precedes the valid one
    for label, obj in list(torchfiles.models(torch, asm.rng_for(ctx.seed, "c16ref"), 0))[:8]:
        for ri in range(len(REFUSED_PAYLOADS)):
            i += 1
            if i % ctx.nshards == ctx.shard:
                run_case(ctx, mods, label + "+refused-first", obj, texts[i % len(texts)], bool(i % 2), refused_first=ri)
    # histories across wrappers: an earlier wrapper (kept referenced) rewrote its own file through the same output name
    for label, obj in list(torchfiles.models(torch, asm.rng_for(ctx.seed, "c16earlier"), 0))[:8]:
        i += 1
        if i % ctx.nshards == ctx.shard:
            run_case(ctx, mods, label + "+earlier-wrapper", obj, texts[i % len(texts)], False, earlier=True)
    # file names whose stem is one of the member names the format reserves (the archive's root directory gets that name)
    for label, obj in list(torchfiles.models(torch, asm.rng_for(ctx.seed, "c16names"), 0))[:6]:
        for fname in ("data.pkl.pt", "data.pkl.zip", "version.pt", "constants.pkl.pt", "byteorder.pt", "data.pt", ".data.pkl.pt",
                      "data.pkl", "model data.pkl v2.pt"):
            i += 1
            if i % ctx.nshards == ctx.shard:
                run_case(ctx, mods, label, obj, texts[i % len(texts)], bool(i % 2), fname=fname)
                ctx.agg.count("reserved_name_cases")
                pth = os.path.join(ctx.scratch, fname)
                if os.path.exists(pth):
                    os.remove(pth)
    # the wrapper's read-only properties are read before the injection (scan, then inject)
    for label, obj in list(torchfiles.models(torch, asm.rng_for(ctx.seed, "c16touch"), 0))[:10]:
        for touch in ("pickled", "formats", "pickled+formats", "validate+pickled"):
            i += 1
            if i % ctx.nshards == ctx.shard:
                run_case(ctx, mods, label + "+read-first", obj, texts[i % len(texts)], bool(i % 2), touch_first=touch)
    # other pickle protocols of torch.save, incl. model pickles large enough to be split over several FRAMEs
    big = [("model_pickle_over_1MiB", {"w": torch.ones(2, 2), "meta": {("key_%06d_" % k) * 12: k for k in range(11000)}}),
           ("big_pickle_few_tensors", {"w": torch.ones(2, 2), "meta": {("key_%05d" % k) * 4: k for k in range(4000)}}),
           ("many_small_tensors", {"t%d" % k: torch.full((1,), float(k)) for k in range({"quick": 1300, "thorough": 2600}[ctx.tier])})]
    small = list(torchfiles.models(torch, asm.rng_for(ctx.seed, "c16proto"), 0))
    for label, obj in big + small:
        for proto in (2, 3, 4, 5):
            if proto in (2, 3) and (label, obj) not in big:
                continue
            i += 1
            if ctx.tier == "quick" and (label, obj) not in big and pick.random() > 0.35:
                continue
            if i % ctx.nshards == ctx.shard:
                run_case(ctx, mods, f"{label}@p{proto}", obj, texts[i % len(texts)], bool(i % 2), proto=proto)
                ctx.agg.count("non_default_protocol_cases")
    for p in ("c16_model.pt", "c16_injected.pt"):
        pp = os.path.join(ctx.scratch, p)
        if os.path.exists(pp):
            os.remove(pp)


def replay(ctx, payload):
    c = payload["case"]
    mods = setup()
    torch = mods[0]
    torch.manual_seed(ctx.seed)
    rng = asm.rng_for(ctx.seed, "c16")
    earlier = c.get("model", "").endswith("+earlier-wrapper")
    for label, obj in torchfiles.models(torch, rng, 120):
        if label + ("+earlier-wrapper" if earlier else "") == c.get("model"):
            for text in payload_texts(ctx) + [s for s in gen.STRS if s not in ("\ud800", "\x00")]:
                if f"__import__('vp_sink').hit('C16', {text!r})"[:200] == c.get("payload"):
                    run_case(ctx, mods, c.get("model"), obj, text, bool(c.get("overwrite")), earlier=earlier)
                    return
    ctx.agg.inconclusive.append("could not regenerate the witness model/payload from its label")

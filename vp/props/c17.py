"""C17 - Format identification follows the documented table and is read-only."""
import contextlib
import hashlib
import io
import itertools
import os
import shutil

from vp import asm, monitor, torchfiles
from vp.core import h

CONFIG = dict(
    level="exploration",
    rule=("(a) synthetic zips over all 32 subsets of the five marker members x placement (root / one directory "
          "deep) x leading junk (none / some) x trailing data (nothing / appended pickle / appended tar), plus "
          "real files from torch.save (zip and legacy), torch.jit.save, a legacy tar and a MAR-like zip: "
          "identify_pytorch_file_format is called twice under file-event monitoring and compared with the "
          "documented table in its documented precedence, with torch's own zip loader as second judge for "
          "'at least PyTorch v1.3'; (b) create_polyglot on all ordered pairs of the real files (incl. "
          "unidentifiable ones and pairs with no polyglot) in a fresh working directory, with the default output name and "
          "with a bare name, a name in a sub-directory, a ./ name and an absolute name outside the working directory: "
          "inputs' sha256, the recursive listing of the working and output directories after return or raise, and "
          "identification of the product; every product is fed back as an input (either position) with each real file; (c) crash points: for "
          "every file-system audit event of each clean create_polyglot run, the run is repeated with an "
          "OSError injected at that event (fault enumeration) and the same after-state is required.  A case "
          "is one distinct (file bytes) or (pair, failpoint); non-trivial = a zip with at least one marker, "
          "or any polyglot run."),
    assumptions=[
        "the table: v1.4 = data.pkl+constants.pkl+version, v1.3 = data.pkl+constants.pkl, v1.0 = model.json+constants.pkl, "
        "v1.1 = model.json+attributes.pkl, PyTorch v1.3 = data.pkl, listed in that order",
        "the contested cell (model.json without constants.pkl: README 'v1.0', code 'corrupted') is a don't-care",
        "process death cannot be cleaned up after by any code: crash points are exceptions injected at I/O events; "
        "failures injected into the removal operations themselves are excluded from the after-state requirement",
    ],
    min_nontrivial={"quick": 150, "thorough": 600},
    nshards={"quick": 4, "thorough": 8},
    timeout={"quick": 900, "thorough": 5400},
    required_counters=("identifications", "table_rows_checked", "polyglot_runs", "failpoints_injected"),
)

ZIP_FORMATS = ["TorchScript v1.4", "TorchScript v1.3", "TorchScript v1.0", "TorchScript v1.1", "PyTorch v1.3"]
# os.scandir / os.listdir / os.remove / os.rmdir are (part of) the removal operations themselves: a failure
# injected there is excluded from the after-state requirement (nobody can clean up with a broken remove)
FS_KINDS = ("open", "shutil.copyfile", "shutil.copymode", "shutil.copystat", "os.mkdir", "os.rename", "os.chmod",
            "os.utime")


def reference(markers):
    """(must_have, must_not_have) among ZIP_FORMATS for a zip at offset 0 with these markers."""
    m = set(markers)
    must, must_not = [], []

    def row(name, needs, dont_care=False):
        if dont_care:
            return
        (must if needs <= m else must_not).append(name)

    row("TorchScript v1.4", {"data.pkl", "constants.pkl", "version"})
    row("TorchScript v1.3", {"data.pkl", "constants.pkl"})
    row("TorchScript v1.0", {"model.json", "constants.pkl"}, dont_care=("model.json" in m and "constants.pkl" not in m))
    row("TorchScript v1.1", {"model.json", "attributes.pkl"})
    row("PyTorch v1.3", {"data.pkl"})
    return must, must_not


def sha(path):
    with open(path, "rb") as fh:
        return hashlib.sha256(fh.read()).hexdigest()


def quiet(fn, *a, **k):
    with contextlib.redirect_stdout(io.StringIO()), contextlib.redirect_stderr(io.StringIO()):
        import warnings
        with warnings.catch_warnings():
            warnings.simplefilter("ignore")
            return fn(*a, **k)


def identify_case(ctx, mods, label, path, markers=None, at_offset0=True):
    torch, polyglot = mods
    agg = ctx.agg
    with open(path, "rb") as fh:
        data = fh.read()
    key = h(hashlib.sha256(data).hexdigest() + label)
    if not agg.case(key, bool(markers) or markers is None, {"file": label, "markers": sorted(markers) if markers is not None else "real"}):
        return None
    w = {"file": label, "markers": sorted(markers) if markers is not None else None, "size": len(data)}
    before = sha(path)
    listing = set(os.listdir(os.path.dirname(path)))
    with monitor.Recording() as rec:
        try:
            r1 = quiet(polyglot.identify_pytorch_file_format, path)
            r2 = quiet(polyglot.identify_pytorch_file_format, path)
        except Exception as e:
            agg.violation(f"identify-raises:{type(e).__name__}", f"identification raised: {str(e)[:150]}", w)
            return None
    agg.count("identifications", 2)
    if r1 != r2:
        agg.violation("identify-not-deterministic", f"two calls on the same bytes: {r1} vs {r2}", w)
    # the reporting options are presentation only
    for kw in ({"print_results": True}, {"print_properties": True}, {"print_results": True, "print_properties": True}):
        try:
            rv = quiet(polyglot.identify_pytorch_file_format, path, **kw)
        except Exception as e:
            agg.violation(f"identify-raises:{type(e).__name__}", f"identification with {kw} raised: {str(e)[:120]}", w)
            break
        agg.count("identifications")
        if rv != r1:
            agg.violation("identify-depends-on-print-option", f"with {kw} the result is {rv}, without it {r1}", w)
            break
    for name, s in rec.events:
        bad = False
        if name == "open" and isinstance(s[0], str) and os.path.abspath(s[0]) == os.path.abspath(path):
            mode, flags = s[1], s[2]
            bad = (isinstance(mode, str) and any(c in mode for c in "wax+")) or (isinstance(flags, int) and flags & (os.O_WRONLY | os.O_RDWR))
        elif name in ("os.remove", "os.rename", "os.truncate", "os.chmod") and any(isinstance(a, str) and os.path.abspath(a) == os.path.abspath(path) for a in s):
            bad = True
        if bad:
            agg.violation("identify-writes-input", f"write-type file event on the input: {name}{s!r}"[:200], w)
    if sha(path) != before:
        agg.violation("identify-modifies-input", "input bytes changed during identification", w)
    extra = set(os.listdir(os.path.dirname(path))) - listing
    if extra:
        agg.violation("identify-leaves-files", f"new files after identification: {sorted(extra)[:3]}", w)
    zip_part = [x for x in r1 if x in ZIP_FORMATS]
    if markers is not None:
        agg.count("table_rows_checked")
        if at_offset0:
            must, must_not = reference(markers)
            missing = [x for x in must if x not in zip_part]
            wrong = [x for x in must_not if x in zip_part]
            order = [x for x in ZIP_FORMATS if x in zip_part]
            if missing or wrong:
                agg.violation("table-mismatch", f"markers {sorted(markers)}: returned {r1}; table requires {must} and forbids {must_not}", w)
            elif zip_part != order:
                agg.violation("table-precedence", f"formats {zip_part} are not in the documented precedence order", w)
        elif zip_part:
            agg.violation("zip-not-at-offset0-classified", f"a file that does not start with the zip magic was classified {zip_part}", w)
    # second judge: whatever torch's own zip path loads must be reported as at least PyTorch v1.3
    try:
        with open(path, "rb") as fh:
            is_zip = torch.serialization._is_zipfile(fh)
        ok = False
        if is_zip:
            rd = torch._C.PyTorchFileReader(path)
            ok = rd.has_record("data.pkl")
            if ok:
                quiet(torch.load, path, weights_only=False)
        if ok:
            agg.count("torch_zip_loader_accepts")
            if "PyTorch v1.3" not in r1:
                agg.violation("torch-accepts-but-not-v1.3", f"torch's zip loader loads the file but identification returned {r1}", w)
    except Exception:
        pass
    return r1


def _tree(root):
    out = []
    for dp, dns, fns in os.walk(root):
        for n in dns + fns:
            out.append(os.path.relpath(os.path.join(dp, n), root))
    return sorted(out)


def polyglot_case(ctx, mods, files, a, b, failpoint_k=None, clean_events=None, outname=None, keep=None):
    """One create_polyglot run in a fresh working directory.  Returns list of fs events (clean run)."""
    torch, polyglot = mods
    agg = ctx.agg
    wd = os.path.join(ctx.scratch, "polywd")
    shutil.rmtree(wd, ignore_errors=True)
    os.makedirs(wd)
    outside = os.path.join(ctx.scratch, "polyout")
    shutil.rmtree(outside, ignore_errors=True)
    os.makedirs(outside)
    os.makedirs(os.path.join(wd, "sub", "dir"))
    out_arg = {None: None, "bare": "custom.bin", "subdir": os.path.join("sub", "dir", "poly.out"),
               "dot": os.path.join(".", "poly.out"), "absolute": os.path.join(outside, "poly.out")}[outname]
    pa, pb = files[a], files[b]
    key = h(f"poly|{a}|{b}|{failpoint_k}|{outname}|" + sha(pa) + sha(pb))
    if not agg.case(key, True, {"polyglot_inputs": [a, b], "failpoint": failpoint_k, "output_name": outname}):
        return None
    w = {"inputs": [a, b], "failpoint": failpoint_k, "output_name": out_arg}
    sa, sb = sha(pa), sha(pb)
    fired = []

    def fp(name, s, idx):
        if failpoint_k is None:
            return None
        # everything between a shutil.rmtree event and the rmdir of its root is the removal operation itself
        if name == "shutil.rmtree":
            fp.rm_root = s[0]
            return None
        if fp.rm_root is not None:
            if name == "os.rmdir" and s and s[0] == fp.rm_root:
                fp.rm_root = None
            return None
        if name in FS_KINDS:
            n = fp.count
            fp.count += 1
            if n == failpoint_k:
                fired.append((name, s))
                return OSError(f"vp: injected I/O failure at file event #{n} ({name})")
        return None
    fp.count = 0
    fp.rm_root = None
    old = os.getcwd()
    os.chdir(wd)
    try:
        with monitor.Recording(failpoint=fp) as rec:
            try:
                res = quiet(polyglot.create_polyglot, pa, pb, out_arg, False)
                outcome = ("ret", res)
            except BaseException as e:
                outcome = ("exc", e)
    finally:
        os.chdir(old)
    agg.count("polyglot_runs")
    if failpoint_k is not None:
        if not fired:
            agg.count("failpoints_not_reached")
            shutil.rmtree(wd, ignore_errors=True)
            return None
        agg.count("failpoints_injected")
        agg.hist("failpoint_kinds", fired[0][0])
    agg.hist("polyglot_outcomes", ("found" if outcome[1] else "none") if outcome[0] == "ret" else type(outcome[1]).__name__)
    if sha(pa) != sa or sha(pb) != sb:
        agg.violation("polyglot-modifies-input", "an input file changed", w)
    left = [x for x in _tree(wd) if x not in ("sub", os.path.join("sub", "dir"))] + \
           [os.path.join("<outside>", x) for x in _tree(outside)]
    if out_arg is None:
        allowed = {"polyglot.pt", "polyglot.mar.pt", "polyglot.mar.tar"}
    else:
        allowed = {os.path.join("<outside>", "poly.out") if outname == "absolute" else os.path.normpath(out_arg)}
    stray = [x for x in left if x not in allowed]
    if stray:
        how = "returned" if outcome[0] == "ret" else f"raised {type(outcome[1]).__name__}"
        if failpoint_k is None:
            k2 = "polyglot-temp-leak:" + ("success" if outcome[0] == "ret" and outcome[1] else
                                          "no-polyglot" if outcome[0] == "ret" else "unidentified-input" if isinstance(outcome[1], IndexError) else "error")
        else:
            k2 = "polyglot-temp-leak:io-error"
        agg.violation(k2, f"create_polyglot {how} and left {stray[:4]} in the working directory", dict(w, left=stray[:6]))
    if outcome[0] == "ret" and outcome[1] and failpoint_k is None:
        prod = [x for x in left if x in allowed]
        if len(prod) != 1:
            agg.violation("polyglot-product-missing", f"success reported but products are {prod}", w)
        else:
            fa = quiet(polyglot.identify_pytorch_file_format, pa)
            fb = quiet(polyglot.identify_pytorch_file_format, pb)
            fp_ = quiet(polyglot.identify_pytorch_file_format,
                        os.path.join(outside, "poly.out") if outname == "absolute" else os.path.join(wd, prod[0]))
            need = [fa[0], fb[0]] if fa and fb else []
            if any(x not in fp_ for x in need):
                agg.violation("polyglot-product-format", f"product identified as {fp_}, expected to include {need}", w)
            elif keep is not None and outname is None:
                # keep the product: the tool's own output is a legitimate input of the next construction
                dst = os.path.join(ctx.scratch, "real", f"poly_{a}_{b}" + os.path.splitext(prod[0])[1])
                shutil.copy(os.path.join(wd, prod[0]), dst)
                keep[f"poly:{a}+{b}"] = dst
    events, root = [], None
    for n, s in rec.events:
        if n == "shutil.rmtree":
            root = s[0]
        elif root is not None:
            if n == "os.rmdir" and s and s[0] == root:
                root = None
        elif n in FS_KINDS:
            events.append((n, s))
    shutil.rmtree(wd, ignore_errors=True)
    shutil.rmtree(outside, ignore_errors=True)
    return events


VERSION_BODIES = [b"3\n", b"10\n", b"2", b"12", b"9\n", b"100\n", b"3"]


def build_real_files(ctx, torch):
    d = os.path.join(ctx.scratch, "real")
    os.makedirs(d, exist_ok=True)
    files = {}
    m = torch.nn.Linear(2, 2)
    files["zip"] = os.path.join(d, "model_zip.pth")
    torch.save(m, files["zip"])
    files["zip2"] = os.path.join(d, "state_zip.pth")
    torch.save(m.state_dict(), files["zip2"])
    files["legacy"] = os.path.join(d, "model_legacy.pth")
    torch.save(m.state_dict(), files["legacy"], _use_new_zipfile_serialization=False)
    files["jit"] = os.path.join(d, "model_jit.pt")
    torch.jit.save(torch.jit.script(m), files["jit"])
    # a scripted module whose operators make torch write a two-digit operator-set version record (gelu: "10")
    class G(torch.nn.Module):
        def forward(self, x):
            return torch.nn.functional.gelu(x)
    files["jit-gelu"] = os.path.join(d, "model_jit_gelu.pt")
    torch.jit.save(torch.jit.script(G()), files["jit-gelu"])
    # a checkpoint written with torch's CRC-32 computation switched off (a documented speed option): the records carry
    # CRC 0, which torch's reader does not look at and Python's zipfile rejects on read
    if hasattr(torch.serialization, "set_crc32_options"):
        files["zip-nocrc"] = os.path.join(d, "model_zip_nocrc.pth")
        torch.serialization.set_crc32_options(False)
        try:
            torch.save(m.state_dict(), files["zip-nocrc"])
        finally:
            torch.serialization.set_crc32_options(True)
    files["tar"] = os.path.join(d, "model_legacy_tar.pth")
    torchfiles.legacy_tar(files["tar"], d)
    files["mar"] = os.path.join(d, "model.mar")
    torchfiles.mar_zip(files["mar"], torch)
    files["mar-big"] = os.path.join(d, "model_big.mar")
    torchfiles.mar_zip(files["mar-big"], torch, big=True)
    files["text"] = os.path.join(d, "notes.txt")
    with open(files["text"], "wb") as fh:
        fh.write(b"\xff\xfe not a model at all \x00\x01")
    files["randzip"] = os.path.join(d, "random.zip")
    torchfiles.synthetic_zip(files["randzip"], [], False, leading_junk=b"JUNKJUNKJUNK")
    return files


def setup():
    import torch
    import fickling  # noqa: F401
    import fickling.polyglot as polyglot
    return torch, polyglot


def run_shard(ctx):
    mods = setup()
    torch, polyglot = mods
    d = os.path.join(ctx.scratch, "syn")
    os.makedirs(d, exist_ok=True)
    files = build_real_files(ctx, torch)
    tarpath = os.path.join(ctx.scratch, "small.tar")
    torchfiles.small_tar(tarpath, ctx.scratch)
    with open(tarpath, "rb") as fh:
        tarbytes = fh.read()
    os.remove(tarpath)
    i = 0
    # (a) synthetic table
    for r in range(0, 6):
        for markers in itertools.combinations(torchfiles.MARKERS, r):
            for deep in (False, True):
                for junk in (b"", b"leading junk bytes!"):
                    for tname, trailing in (("none", b""), ("pickle", b"\x80\x02]q\x00."), ("tar", tarbytes)):
                        i += 1
                        if i % ctx.nshards != ctx.shard:
                            continue
                        if ctx.tier == "quick" and tname == "tar" and i % 3:
                            continue
                        p = os.path.join(d, "syn.zip")
                        # what the version record says rotates over the numbers real writers produce (torch writes the
                        # operator-set version: "3\n" for old operators, "10\n" for newer ones; all of them are >= 2)
                        ver = VERSION_BODIES[i % len(VERSION_BODIES)]
                        torchfiles.synthetic_zip(p, markers, deep, junk, trailing, version=ver)
                        if "version" in markers:
                            ctx.agg.hist("version_record_contents", repr(ver))
                        identify_case(ctx, mods, f"syn-{'deep' if deep else 'root'}-{'junk' if junk else 'clean'}-{tname}-ver{ver.decode().strip()}" if "version" in markers else
                                      f"syn-{'deep' if deep else 'root'}-{'junk' if junk else 'clean'}-{tname}",
                                      p, markers=set(markers), at_offset0=not junk)
                        os.remove(p)
    # archive root directories (torch takes them from the file stem) with characters that are ordinary text but not
    # "printable" / not ASCII: ideographic space, no-break space, zero-width non-joiner, combining marks, private use, emoji
    odd_dirs = ["\u6a21\u578b\u3000v2", "mod\u00e8le\u00a0final", "\u0645\u062f\u0644\u200c\u0646\u0647\u0627\u06cc\u06cc", "e\u0301te\u0301",
                "priv\ue000ate", "\U0001f600model", "with space", "tab\tname"]
    for di, dn in enumerate(odd_dirs):
        for markers in (["data.pkl", "constants.pkl", "version"], ["data.pkl"], ["model.json", "constants.pkl"], ["data.pkl", "constants.pkl"]):
            i += 1
            if i % ctx.nshards == ctx.shard:
                p = os.path.join(ctx.scratch, "odd_dir.zip")
                torchfiles.synthetic_zip(p, markers, True, dirname=dn)
                identify_case(ctx, mods, f"syn-odd-directory-{di}", p, markers=set(markers))
                os.remove(p)
    # ... and real torch files saved under such names (where the file system encoding can spell them)
    import sys
    if sys.getfilesystemencoding().lower().replace("-", "") in ("utf8",):
        for di, dn in enumerate(odd_dirs[:4]):
            i += 1
            if i % ctx.nshards == ctx.shard:
                p = os.path.join(ctx.scratch, dn + ".pt")
                try:
                    torch.jit.save(torch.jit.script(torch.nn.Linear(2, 2)), p)
                except Exception:
                    continue
                r = identify_case(ctx, mods, f"real-jit-odd-name-{di}", p)
                if r is not None:
                    ctx.agg.hist("real_file_formats", f"jit-odd-name-{di}: {r}")
                os.remove(p)
    # scale: archives with more members than any per-archive cap one might think of, the markers written last
    for filler in (9999, 10001, 70000):
        for markers in (["data.pkl", "constants.pkl", "version"], ["data.pkl"], ["model.json", "constants.pkl"]):
            i += 1
            if i % ctx.nshards == ctx.shard and (ctx.tier == "thorough" or filler < 70000 or markers == ["data.pkl"]):
                p = os.path.join(ctx.scratch, "many_members.zip")
                torchfiles.synthetic_zip(p, markers, True, filler=filler)
                identify_case(ctx, mods, f"syn-many-members-{filler}", p, markers=set(markers))
                os.remove(p)
    # real files
    for name, p in files.items():
        i += 1
        if i % ctx.nshards == ctx.shard:
            r = identify_case(ctx, mods, "real-" + name, p)
            if r is not None:
                ctx.agg.hist("real_file_formats", f"{name}: {r}")
    # (b) + (c) polyglots
    names = sorted(files)
    products = {}
    pairs = [(a, b) for a in names for b in names]
    for a, b in pairs:
        i += 1
        if i % ctx.nshards != ctx.shard:
            continue
        events = polyglot_case(ctx, mods, files, a, b, keep=products)
        if events is None:
            continue
        for outname in ("bare", "subdir", "dot", "absolute"):
            polyglot_case(ctx, mods, files, a, b, outname=outname)
        interesting = {("zip", "jit"), ("jit", "zip"), ("zip", "jit-gelu"), ("jit-gelu", "zip"), ("mar", "legacy"), ("legacy", "mar"), ("mar", "tar"), ("tar", "mar"),
                       ("mar-big", "legacy"), ("tar", "mar-big"),
                       ("text", "zip"), ("zip", "text"), ("zip", "zip2"), ("legacy", "legacy")}
        if ctx.tier == "quick" and (a, b) not in interesting:
            continue
        for k in range(len(events)):
            polyglot_case(ctx, mods, files, a, b, failpoint_k=k)
    second_generation(ctx, mods, files, products)


def second_generation(ctx, mods, files, products):
    """Compositions: a polyglot the tool wrote is fed back as an input (either position) together with each real file."""
    files2 = dict(files)
    files2.update(products)
    n = 0
    for pname in sorted(products):
        for other in sorted(files):
            for a, b in ((other, pname), (pname, other)):
                polyglot_case(ctx, mods, files2, a, b)
                n += 1
    ctx.agg.count("second_generation_runs", n)
    for pth in products.values():
        if os.path.exists(pth):
            os.remove(pth)


def replay(ctx, payload):
    ctx.agg.inconclusive.append("C17 witnesses name generated files; re-run the check with the same seed")

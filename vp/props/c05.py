"""C05 - The decompiled program rebuilds the same value as the real pickle VM."""
import ast
import builtins

from vp import diffengine as de, diffrun, refvm, workload, gen
from vp.core import h

CONFIG = dict(
    level="exploration",
    rule=("(a) same program workload as C03: for every program accepted by both the reference VM and "
          "fickling, the decompiled source is executed under inert stubs and its canonical value "
          "(containers, constructor calls with arguments, applied states/items, sharing through its "
          "effect) is compared with the VM's; (b) plain data: generated acyclic values at protocols 0-5 "
          "(framed/unframed, C and Python picklers) are decompiled, executed with the real builtins and "
          "compared with the original by type and ==; pairs of them are also delivered back to back behind a header "
          "through seekable streams of several kinds at a non-zero offset and as a stack.  A case is one distinct byte string; non-trivial = "
          "accepted by both sides and the value contains a container or an object."),
    assumptions=[
        "CPython's pickle._Unpickler with stub globals is the reference VM",
        "stub objects record append/extend/add/__setitem__/update/__setstate__ as applied items/states",
        "values containing a cycle are excluded from the equality oracle (quantifier is acyclic)",
        "RecursionError on either side is a refusal, not a violation",
        "NaN is not generated",
    ],
    min_nontrivial={"quick": 2000, "thorough": 50000},
    nshards={"quick": 16, "thorough": 16},
    timeout={"quick": 900, "thorough": 7200},
    required_counters=("threaded_decompiles", "threaded_yields_injected", "value_checks", "plain_checks", "plain_delivery_checks", "interrupted_traces_resumed"),
)

CONTAINER_TAGS = ("list", "tuple", "dict", "set", "frozenset", "obj")


def has_container(c):
    return isinstance(c, tuple) and bool(c) and c[0] in CONTAINER_TAGS


def classify_value(o):
    d = de.first_diff(o.ref_canon, o.dec_canon)
    if d is None:
        return "value-differs:?", ""
    _, a, b = d
    ta, tb = de.tag(a), de.tag(b)
    if refvm.erase_modules(o.ref_canon) == refvm.erase_modules(o.dec_canon):
        if not de.same_import_sequence(o):
            return "wrong-module-and-import-sequence-differs", (
                "values differ in which module a global comes from, and the decompile does not perform the VM's imports "
                "one by one in the VM's order (an import was dropped or moved)")
        return "global-shadowed", ("values differ only in which module a bare global name resolves to "
                                   "(same attribute name imported from two modules)")
    ops = set(o.ops or ())
    lock = o.lock_div["op"] if o.lock_div else None
    if lock:
        return f"value-differs-after-stack-divergence:{lock}", f"VM builds {ta}, decompile builds {tb}"
    return f"value-differs:{generalise(ta)}/{generalise(tb)}", f"VM builds {ta}, decompile builds {tb}"


def _dotted_ident(m):
    return bool(m) and all(p.isidentifier() for p in m.split("."))


def _use_before_def(src, e):
    """NameError for a fickling variable that *is* assigned, but later in the program: an AST node
    was mutated in place (APPEND/SETITEM...) after an earlier statement had already used it."""
    import re
    m = re.search(r"'(_var\d+)'", str(e))
    if not m:
        return False
    name = m.group(1)
    try:
        tree = ast.parse(src)
    except SyntaxError:
        return False
    return any(isinstance(n, ast.Name) and n.id == name and isinstance(n.ctx, ast.Store)
               for n in ast.walk(tree))


def generalise(t):
    # keep mechanism-level information only (empty vs non-empty), not sizes
    import re
    m = re.match(r"^(\w+)\[(?:muts=)?(\d+)\]$", t)
    if m:
        return f"{m.group(1)}[{'0' if m.group(2) == '0' else 'n'}]"
    return t


def oracle(ctx, label, data, o, names):
    agg = ctx.agg
    ch = h(data)
    both = bool(o.ref_ok and o.fick_ok)
    nontrivial = both and (o.exec_err is not None or has_container(o.ref_canon))
    sample = None
    if nontrivial:
        sample = {"ops": (names or o.ops)[:30], "decompile": (o.src or "")[:300]}
    if not agg.case(ch, nontrivial, sample):
        return
    if not both:
        return
    if o.exec_err is not None:
        if isinstance(o.exec_err, RecursionError):
            agg.count("refused_recursion")
            return
        e = o.exec_err
        if isinstance(e, SyntaxError):
            if "<ast." in (o.src or ""):
                key = "decompile-not-python:ast-object-repr"
            elif any(ev[0] == "import" and not (_dotted_ident(ev[1]) and ev[2].isidentifier())
                     for ev in o.ref_log.events):
                key = "decompile-not-python:non-identifier-global-name"
            else:
                key = "decompile-not-python:syntax"
        elif isinstance(e, (NameError, KeyError)) and _use_before_def(o.src, e):
            key = "decompile-use-before-definition"
        else:
            key = f"decompile-exec-raises:{type(e).__name__}"
        if de.scheme_name_collision(o) and not isinstance(e, SyntaxError):
            key = "global-name-captures-decompiler-variable"
        if de.name_not_nfkc_stable(o) and not isinstance(e, SyntaxError):
            key = "global-name-not-nfkc-stable"
        agg.violation(key, f"fickling accepted the pickle but executing its decompile raises {type(e).__name__}: {str(e)[:120]}",
                      diffrun.witness(label, data, names, decompile=o.src[:600]))
        return
    agg.count("value_checks")
    if o.cyclic:
        agg.count("cyclic_excluded")
        return
    if not o.value_equal:
        key, what = classify_value(o)
        if de.scheme_name_collision(o):
            key = "global-name-captures-decompiler-variable"
        if de.name_not_nfkc_stable(o):
            key, what = "global-name-not-nfkc-stable", ("a global whose name changes under NFKC: read back as source text the "
                                                       "decompile denotes the folded identifier")
        agg.violation(key, what, diffrun.witness(label, data, names, decompile=o.src[:600],
                                                 vm_value=str(o.ref_canon)[:400], dec_value=str(o.dec_canon)[:400]))


# ------------------------------------------------------------------------------------------
# plain data: decompile, exec with the real builtins, compare with the original

PLAIN_TYPES = (int, float, bool, type(None), str, bytes)


def is_plain(v, depth=0):
    """numbers, text, bytes, lists, tuples, dicts, sets, frozensets - nested and shared."""
    if type(v) in PLAIN_TYPES:
        return True
    if depth > 50:
        return False
    if type(v) in (list, tuple, set, frozenset):
        return all(is_plain(x, depth + 1) for x in v)
    if type(v) is dict:
        return all(is_plain(k, depth + 1) and is_plain(x, depth + 1) for k, x in v.items())
    return False


def ckey(v):
    """Order-independent, type-aware key of a plain value."""
    t = type(v)
    if t in (set, frozenset):
        return (t.__name__, tuple(sorted(ckey(x) for x in v)))
    if t in (list, tuple):
        return (t.__name__, tuple(ckey(x) for x in v))
    if t is dict:
        return ("dict", tuple((ckey(k), ckey(x)) for k, x in v.items()))
    return (t.__name__, repr(v))


def same(a, b):
    return ckey(a) == ckey(b)


_ALLOWED_IMPORTS = {"_codecs", "builtins", "copyreg", "collections", "__builtin__", "copy_reg"}


def _plain_import(name, globals=None, locals=None, fromlist=(), level=0):
    if name not in _ALLOWED_IMPORTS:
        raise ImportError(f"vp: plain-data decompile imports {name}")
    return __import__(refvm.norm_global(name, "x")[0], globals, locals, fromlist, level)


def plain_check(ctx, label, data, value):
    f = de.fickle()
    agg = ctx.agg
    names = gen.op_names(data)
    supported = names is not None and all(n in f.OPCODES_BY_NAME and
                                          f.OPCODES_BY_NAME[n].run is not f.Opcode.run for n in names)
    ch = h(b"plain" + data)
    if not is_plain(value):
        return
    if not supported:
        agg.count("plain_skipped_unsupported_encoding")
        return
    if not agg.case(ch, isinstance(value, (list, tuple, dict, set, frozenset)),
                    {"plain_value": repr(value)[:120], "label": label, "ops": names[:20]}):
        return
    agg.count("plain_checks")
    try:
        p = f.Pickled.load(data)
        src = ast.unparse(p.ast)
    except RecursionError:
        agg.count("refused_recursion")
        return
    except Exception as e:
        agg.violation(f"plain-data-refused:{type(e).__name__}",
                      f"plain data encoded with supported opcodes only cannot be decompiled: {type(e).__name__}: {str(e)[:100]}",
                      diffrun.witness(label, data, names, value=repr(value)[:200]))
        return
    g = {"__builtins__": dict(vars(builtins), __import__=_plain_import)}
    try:
        exec(compile(src, "<decompiled-plain>", "exec"), g)
        got = g["result"]
    except RecursionError:
        agg.count("refused_recursion")
        return
    except BaseException as e:
        key = ("decompile-not-python:" + ("ast-object-repr" if "<ast." in src else "syntax")
               if isinstance(e, SyntaxError) else f"plain-exec-raises:{type(e).__name__}")
        agg.violation(key, f"executing the decompile of plain data raises {type(e).__name__}: {str(e)[:100]}",
                      diffrun.witness(label, data, names, decompile=src[:500], value=repr(value)[:200]))
        return
    if not same(value, got):
        agg.violation("plain-value-differs", "decompile of plain data evaluates to a different value",
                      diffrun.witness(label, data, names, decompile=src[:500], value=repr(value)[:300],
                                      got=repr(got)[:300]))


def _eval_plain(src):
    g = {"__builtins__": dict(vars(builtins), __import__=_plain_import)}
    exec(compile(src, "<decompiled-plain>", "exec"), g)
    return g["result"]


def plain_deliveries(ctx, label, first, second):
    """Two plain pickles back to back behind a header, delivered as bytes-at-offset streams of several
    kinds and read with consecutive Pickled.load calls (and as a stack): each decompile still evaluates
    to its own value."""
    import io
    import os
    import tempfile
    f = de.fickle()
    agg = ctx.agg
    (d1, v1), (d2, v2) = first, second
    blob = b"HDR" + d1 + d2
    fd, path = tempfile.mkstemp(prefix="vp-c05-")
    os.write(fd, blob)
    os.close(fd)

    class Plain(io.RawIOBase):          # seekable, readable, neither BytesIO nor a real file
        def __init__(self, b):
            self._b = io.BytesIO(b)

        def readable(self):
            return True

        def seekable(self):
            return True

        def readinto(self, buf):
            return self._b.readinto(buf)

        def seek(self, *a):
            return self._b.seek(*a)

        def tell(self):
            return self._b.tell()

    try:
        for kind in ("bytesio", "file", "unbuffered-file", "raw-seekable", "buffered-raw", "stack-file"):
            if kind == "bytesio":
                st = io.BytesIO(blob)
            elif kind in ("file", "stack-file"):
                st = open(path, "rb")
            elif kind == "unbuffered-file":
                st = open(path, "rb", buffering=0)
            elif kind == "raw-seekable":
                st = Plain(blob)
            else:
                st = io.BufferedReader(Plain(blob))
            try:
                st.seek(3)
                try:
                    if kind == "stack-file":
                        parts = list(f.StackedPickle.load(st))
                    else:
                        parts = [f.Pickled.load(st), f.Pickled.load(st)]
                    got = [_eval_plain(ast.unparse(p.ast)) for p in parts[:2]]
                except RecursionError:
                    return
                except BaseException as e:
                    agg.violation(f"plain-delivery-refused:{kind}",
                                  f"two plain pickles behind a 3-byte header, delivered as {kind}: {type(e).__name__}: {str(e)[:100]}",
                                  diffrun.witness(label, blob, None, kind=kind, values=[repr(v1)[:100], repr(v2)[:100]]))
                    continue
                agg.count("plain_delivery_checks")
                if len(got) != 2 or not same(got[0], v1) or not same(got[1], v2):
                    agg.violation(f"plain-delivery-value-differs:{kind}",
                                  f"consecutive loads from a {kind} stream at an offset decompile to different values",
                                  diffrun.witness(label, blob, None, kind=kind, values=[repr(v1)[:100], repr(v2)[:100]],
                                                  got=[repr(x)[:100] for x in got]))
            finally:
                st.close()
    finally:
        os.unlink(path)


def interrupted_trace(ctx, label, data, value):
    """Fault enumeration on the tracer's output: the k-th write to stdout fails (closed pipe), the caller catches that
    and lets the same interpreter finish - the program it then gets still evaluates to the pickled value."""
    import contextlib
    from fickling import tracing
    f = de.fickle()
    agg = ctx.agg

    class Failing:
        def __init__(self, k):
            self.k, self.n = k, 0

        def write(self, s):
            self.n += 1
            if self.n == self.k:
                raise BrokenPipeError("vp: stdout closed")
            return len(s)

        def flush(self):
            pass
    probe = Failing(0)
    try:
        with contextlib.redirect_stdout(probe):
            tracing.Trace(f.Interpreter(f.Pickled.load(data))).run()
    except Exception:
        return
    total = probe.n
    for k in range(1, total + 1, max(1, total // 12)):
        interp = f.Interpreter(f.Pickled.load(data))
        out = Failing(k)
        try:
            with contextlib.redirect_stdout(out):
                tracing.Trace(interp).run()
            continue                      # the k-th write never happened
        except BrokenPipeError:
            pass
        except Exception:
            continue
        try:
            got = _eval_plain(ast.unparse(interp.to_ast()))
        except RecursionError:
            return
        except BaseException as e:
            agg.violation("plain-value-differs:after-interrupted-trace",
                          f"tracing interrupted at output write {k} of {total}, interpreter resumed: {type(e).__name__}: {str(e)[:100]}",
                          diffrun.witness(label, data, None, value=repr(value)[:200], write=k))
            return
        agg.count("interrupted_traces_resumed")
        if not same(value, got):
            agg.violation("plain-value-differs:after-interrupted-trace",
                          f"tracing interrupted at output write {k} of {total}, interpreter resumed: the program evaluates to "
                          f"{got!r}"[:300], diffrun.witness(label, data, None, value=repr(value)[:200], write=k))
            return


def threaded_decompile(ctx, label, data, value):
    """One parsed pickle handed to several threads that all ask for its decompilation at once (a scanner fanning
    analyses out to a pool): every thread gets a program that evaluates to the pickled value."""
    from vp import threads
    f = de.fickle()
    import fickling.analysis as analysis
    agg = ctx.agg
    try:
        want = ast.unparse(f.Pickled.load(data).ast)
    except Exception:
        return
    p = f.Pickled.load(data)

    def ask_source():
        return ast.unparse(p.ast)

    def ask_check():
        analysis.check_safety(p)
        return ast.unparse(p.ast)
    res, st = threads.race([ask_source, ask_check, ask_source], seed=int(h(data)[:6], 16))
    agg.count("threaded_decompiles")
    agg.count("threaded_yields_injected", st["yields_injected"])
    for kind, got in res:
        if kind == "ok" and got == want:
            continue
        if kind == "raise" and isinstance(got, RecursionError):
            continue
        if kind == "ok":
            try:
                ok = same(value, _eval_plain(got))
            except BaseException:
                ok = False
            if ok:
                continue
        agg.violation("plain-value-differs:threads" if kind == "ok" else f"plain-data-refused:threads:{type(got).__name__}",
                      "several threads asked for the decompilation of one parsed pickle at once; one of them got "
                      + ("a program that does not evaluate to the pickled value" if kind == "ok" else f"{type(got).__name__}: {str(got)[:80]}"),
                      diffrun.witness(label, data, gen.op_names(data), value=repr(value)[:200], threaded=True,
                                      got=(got if kind == "ok" else repr(got))[:300], single_threaded=want[:300]))
        return


def run_shard(ctx):
    diffrun.run(ctx, oracle, deep_need={"reduce", "obj", "inst", "newobj", "newobj_ex", "build", "binpersid"})
    n = {"quick": 1200, "thorough": 25000}[ctx.tier]
    prev, i = None, 0
    f = de.fickle()
    for label, data, v in workload.natural(ctx, n, plain_only=True, with_value=True):
        plain_check(ctx, "plain-" + label, data, v)
        names = gen.op_names(data)
        if not is_plain(v) or names is None or not all(
                n_ in f.OPCODES_BY_NAME and f.OPCODES_BY_NAME[n_].run is not f.Opcode.run for n_ in names):
            continue
        i += 1
        if len(data) < 400 and i % 5 == 0:
            interrupted_trace(ctx, "plain-trace-fault-" + label, data, v)
        if len(data) < 2000 and i % 7 == 0:
            threaded_decompile(ctx, "plain-threads-" + label, data, v)
        if prev is not None and i % 3 == 0:
            plain_deliveries(ctx, "plain-delivery-" + label, prev, (data, v))
        prev = (data, v)


def replay(ctx, payload):
    case = payload["case"]
    if case.get("threaded"):
        data = bytes.fromhex(case["hex"])
        import pickle
        threaded_decompile(ctx, case["label"], data, pickle.loads(data))
    elif case.get("label", "").startswith("plain-") and "value" in case:
        data = bytes.fromhex(case["hex"])
        import pickle
        plain_check(ctx, case["label"], data, pickle.loads(data))
    else:
        diffrun.replay_case(ctx, payload, oracle)

"""./check <ID> [--tier quick|thorough] [--replay FILE]"""
import argparse
import importlib
import json
import os
import sys
import time

from vp import core


def main(argv=None):
    ap = argparse.ArgumentParser()
    ap.add_argument("prop")
    ap.add_argument("--tier", default=None)
    ap.add_argument("--replay", default=None)
    ap.add_argument("--shards", type=int, default=None)
    a = ap.parse_args(argv)
    prop = a.prop.upper()
    tier = a.tier or core.tier_from_env()
    if tier not in ("quick", "thorough"):
        tier = "quick"
    seed = core.seed_from_env()
    t0 = time.time()
    mod = importlib.import_module("vp.props." + prop.lower())
    cfg = mod.CONFIG
    if a.replay:
        with open(a.replay) as f:
            rp = json.load(f)
        parts = core.run_shards(prop, tier, rp.get("seed", seed), 1, mode="replay", payload=rp,
                                timeout=cfg.get("timeout", {}).get("quick", 1200))
        merged = core.merge(parts)
        known, _ = core.load_known(prop)
        bad = 0
        for k, v in sorted(merged["violations"].items()):
            tag = "KNOWN-FINDING" if core.match_known(k, known) else "VIOLATION"
            bad += tag == "VIOLATION"
            print(f"{tag}: property={prop} {k}: {v['what']}")
            for w in v["witnesses"][:1]:
                print("   witness:", json.dumps(w, default=str)[:1500])
        for r in merged["inconclusive"]:
            print("INCONCLUSIVE", r[:600])
        if not merged["violations"]:
            print(f"replay: no violation reproduced ({merged['evaluations']} evaluations)")
        return 1 if bad else 0
    nsh = a.shards or cfg.get("nshards", {}).get(tier, core.NCPU)
    parts = core.run_shards(prop, tier, seed, nsh, timeout=cfg.get("timeout", {}).get(tier, 3600),
                            hashseed=cfg.get("hashseed", "0"))
    merged = core.merge(parts)
    extra = None
    if hasattr(mod, "parent_phase"):
        extra = mod.parent_phase(tier, seed, merged)
    return core.finish(prop, tier, seed, merged, level=cfg["level"], rule=cfg["rule"],
                       assumptions=cfg["assumptions"],
                       min_nontrivial=cfg["min_nontrivial"][tier], t0=t0,
                       coverage_extra=extra,
                       required_counters=cfg.get("required_counters", ()))


if __name__ == "__main__":
    sys.exit(main())

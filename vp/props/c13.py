"""C13 - Answers depend only on the bytes: deterministic, repeatable, no observer effect."""
import ast
import contextlib
import hashlib
import io
import itertools
import json
import os
import time
import shutil

from vp import asm, gen, workload
from vp.core import h, run_shards, merge

CONFIG = dict(
    level="exploration",
    rule=("for each accepted pickle (natural encodings of generated values at all protocols, vocabulary "
          "fate matrix, one program per opcode, exhaustive short and random long assembler programs) a "
          "baseline answer table {unparse, severity, finding set, properties, import summaries, trace "
          "output, str/to_dict of results, dumps} is taken from a fresh parse; then every ordered "
          "selection of queries up to the tier's length bound (plus seeded random longer sequences with "
          "repetitions) is replayed on one object and on re-parsed copies and every answer compared with "
          "the baseline; the same corpus is answered again by fresh processes with PYTHONHASHSEED 1, 2 "
          "and a seed-derived value - which also differ in locale, default / IO encoding, working directory, argv, HOME/TMPDIR "
          "and in what is already imported - and the digests are diffed by the parent; every case is also parsed from a "
          "stream at an offset, as a later member of two stacks and from raw streams that return 1-7 bytes per read; and the vocabulary corpus is answered "
          "forward and reversed in one process (order sensitivity).  A case is one distinct "
          "byte string; non-trivial = fickling decompiles it and it has >= 3 opcodes."),
    assumptions=[
        "an answer that is an exception is compared by exception type",
        "query alphabet is the read-only public API named in the property; CLI printing is C18's",
    ],
    min_nontrivial={"quick": 1500, "thorough": 20000},
    nshards={"quick": 16, "thorough": 16},
    timeout={"quick": 900, "thorough": 5400},
    required_counters=("query_sequences", "answers_compared", "cross_process_cases", "order_sensitivity_cases"),
)

QUERIES = ["unparse", "ast_dump", "check_safety", "trace", "properties", "unsafe_imports",
           "non_standard_imports", "str_results", "to_dict", "dumps", "interpret_renumbered",
           "trace_renumbered", "unused_variables"]


def _safe(fn):
    try:
        return fn()
    except RecursionError:
        return "EXC:RecursionError"
    except Exception as e:
        return "EXC:" + type(e).__name__


def answer(f, analysis, tracing, p, q):
    from vp.diffengine import sdump
    if q == "unparse":
        return _safe(lambda: ast.unparse(p.ast))
    if q == "ast_dump":
        return _safe(lambda: sdump(p.ast))
    if q == "check_safety":
        def go():
            r = analysis.check_safety(p)
            return (r.severity.name, tuple(sorted((str(x.analysis_name), x.severity.name, str(x.message))
                                                  for x in r.results)))
        return _safe(go)
    if q == "trace":
        def go():
            buf = io.StringIO()
            with contextlib.redirect_stdout(buf):
                mod = tracing.Trace(f.Interpreter(p)).run()
            return (buf.getvalue(), ast.unparse(mod))
        return _safe(go)
    if q == "properties":
        return _safe(lambda: (p.has_import, p.has_call, p.has_non_setstate_call,
                              len(p.properties.imports), len(p.properties.calls),
                              tuple(sorted(p.properties.likely_safe_imports))))
    if q == "unsafe_imports":
        return _safe(lambda: tuple(ast.unparse(n) for n in p.unsafe_imports()))
    if q == "non_standard_imports":
        return _safe(lambda: tuple(ast.unparse(n) for n in p.non_standard_imports()))
    if q == "str_results":
        return _safe(lambda: str(analysis.check_safety(p)))
    if q == "to_dict":
        return _safe(lambda: repr(analysis.check_safety(p).to_dict()))
    if q == "dumps":
        return _safe(lambda: p.dumps())
    if q == "interpret_renumbered":     # exactly what the CLI does for the i-th pickle of a stack
        return _safe(lambda: ast.unparse(f.Interpreter(p, first_variable_id=7, result_variable="result3").to_ast()))
    if q == "trace_renumbered":
        def go():
            buf = io.StringIO()
            with contextlib.redirect_stdout(buf):
                mod = tracing.Trace(f.Interpreter(p, first_variable_id=2, result_variable="result1")).run()
            return (buf.getvalue(), ast.unparse(mod))
        return _safe(go)
    if q == "unused_variables":
        return _safe(lambda: tuple(sorted(f.Interpreter(p).unused_variables())))
    raise ValueError(q)


class Dribble(io.RawIOBase):
    """Raw stream whose reads return at most `chunk` bytes (a short read is not end of input)."""

    def __init__(self, data, chunk, seekable):
        self._b = io.BytesIO(data)
        self._chunk = chunk
        self._seekable = seekable

    def readable(self):
        return True

    def seekable(self):
        return self._seekable

    def readinto(self, buf):
        n = min(len(buf), self._chunk)
        got = self._b.read(n)
        buf[:len(got)] = got
        return len(got)

    def seek(self, *a):
        if not self._seekable:
            raise io.UnsupportedOperation("seek")
        return self._b.seek(*a)

    def tell(self):
        if not self._seekable:
            raise io.UnsupportedOperation("tell")
        return self._b.tell()


def expanded_size(node, _memo=None):
    """Number of nodes of an AST counted the way ast.walk / ast.unparse visit it: a sub-tree referenced from k places
    counts k times (the decompiler re-uses the node of a memoised value).  Linear in the number of distinct nodes."""
    memo = {} if _memo is None else _memo
    stack = [(node, False)]
    while stack:
        n, done = stack.pop()
        i = id(n)
        if i in memo and memo[i] is not None:
            continue
        kids = [c for c in ast.iter_child_nodes(n)]
        if done:
            memo[i] = 1 + sum(memo.get(id(c)) or 0 for c in kids)
            continue
        if i in memo:
            continue        # being computed further down the stack (cannot happen in a DAG; guards against cycles)
        memo[i] = None
        stack.append((n, True))
        for c in kids:
            if memo.get(id(c)) is None and id(c) not in memo:
                stack.append((c, False))
    return memo.get(id(node)) or 0


def corpus(ctx):
    tier = ctx.tier
    nval = {"quick": 150, "thorough": 400}[tier]
    seen = set()

    def emit(label, data):
        if data in seen or not ctx.mine(data):
            return None
        seen.add(data)
        return (label, data)

    for name, prog in workload.directed_programs():
        r = emit("directed-" + name, asm.assemble(prog))
        if r:
            yield r
    for name, prog in workload.per_opcode_programs():
        r = emit("perop-" + name, asm.assemble(prog))
        if r:
            yield r
    for label, data, _ in workload.vocab_fates(ctx):
        if data not in seen:
            seen.add(data)
            if int(h(data)[:2], 16) % (4 if tier == "quick" else 3):
                continue          # the full vocabulary goes through the order-sensitivity pass anyway
            yield (label, data)
    for v in workload.values(ctx.seed, nval):
        for label, data in gen.natural_pickles(v):
            r = emit("nat-" + label, data)
            if r:
                yield r
    short = {asm.assemble(p_) for p_ in asm.enumerate_programs(3)} if tier == "thorough" else set()
    for prog in asm.enumerate_programs({"quick": 3, "thorough": 4}[tier]):
        data_ = asm.assemble(prog)
        if tier == "thorough" and data_ not in short and int(h(data_)[:2], 16) % 8:
            continue          # every eighth length-4 program (all 41241 make the thorough tier run for over an hour)
        r = emit("exh", data_)
        if r:
            yield r
    for i in range({"quick": 1500, "thorough": 5000}[tier]):
        r = emit("rand", asm.assemble(asm.random_program(asm.rng_for(ctx.seed, f"c13r{i}"), max_len=30)))
        if r:
            yield r


def run_shard(ctx):
    variant = os.environ.get("VERIF_C13_ENVIRONMENT")
    if variant:
        # process-level circumstances that are not the pickle's bytes: working directory, argv, what is
        # already imported (the locale / encoding variables are set by the parent in the child's environment)
        import sys
        d = os.path.join(os.getcwd(), "some where else")
        os.makedirs(d, exist_ok=True)
        os.chdir(d)
        sys.argv = ["fickling", "--inject", "print('x')", "--check-safety", "-"]
        if variant == "preimported":
            import os as _o, subprocess, socket, shutil, urllib.request, code, runpy, pty, webbrowser, ctypes  # noqa: F401,E401
            import numpy  # noqa: F401
            import vp_sink, vp_other  # noqa: F401,E401
    import fickling.fickle as f
    import fickling.analysis as analysis
    from fickling import tracing
    agg = ctx.agg
    table_only = os.environ.get("VERIF_C13_TABLE") == "1"
    maxlen = {"quick": 2, "thorough": 3}[ctx.tier]
    dump_dir = os.environ.get("VERIF_C13_DUMP")
    corpus_dir = os.environ.get("VERIF_C13_CORPUS")
    if dump_dir:
        # bytes of natural pickles depend on the hash seed (set iteration order): the corpus for the
        # cross-process comparison is generated once, here, and read back by the other processes
        with open(os.path.join(dump_dir, f"corpus_{ctx.shard}.json"), "w") as fh:
            json.dump([[label, data.hex()] for label, data in corpus(ctx)], fh)
        agg.case("dump", False)
        return
    order = os.environ.get("VERIF_C13_ORDER")
    if order:
        order = "fwd" if ctx.shard == 0 else "rev"      # the two passes run side by side as two "shards"
        # order-sensitivity pass: vocabulary corpus only, one process, forward or reversed
        items = [("directed-" + n, asm.assemble(p)) for n, p in workload.directed_programs()]
        class _All:           # the order pass is not hash-sharded: both processes see the whole vocabulary
            tier, seed, shard, nshards = ctx.tier, ctx.seed, 0, 1

            @staticmethod
            def mine(b):
                return True
        small = ctx.tier == "quick"
        items += [(lab, d) for lab, d, _ in workload.vocab_fates(
            _All, framings=("none",), fates=("result", "pop", "in_list", "memo_reused") if small else None,
            resolves=("GLOBAL", "INST") if small else None, callops=("REDUCE", "OBJ", "INST") if small else None)]
        # import-only forms as well (a rule may key on the import alone)
        for (m_, n_) in [(mm, nn) for mm in ("collections", "vp_sink", "os") for nn in gen.SPECIAL_NAMES]:
            items.append(("voc-import", gen.push_global("GLOBAL", m_, n_) + b"."))
        # constants that compare equal yet are different values / kinds, each in its own pickle of the same shape
        # (a table of "already seen" constants keyed by equality would hand one pickle the other's constant)
        import pickle as _pk
        for grp in ((0.0, -0.0), (1, True, 1.0), (0, False, 0.0, -0.0), ("a", b"a"), (2 ** 31, 2147483648.0), ((1,), (1.0,), (True,))):
            for c in grp:
                for pr in (0, 2, 4):
                    items.append((f"twin-constant-{c!r}-p{pr}", _pk.dumps([c, 1.5, {"k": c}], pr)))
        seen_o = set()
        items = [x for x in items if not (x[1] in seen_o or seen_o.add(x[1]))]
        if order == "rev":
            items.reverse()
    elif corpus_dir:
        with open(os.path.join(corpus_dir, f"corpus_{ctx.shard}.json")) as fh:
            items = [(label, bytes.fromhex(hx)) for label, hx in json.load(fh)]
    else:
        items = corpus(ctx)
    for label, data in items:
        try:
            p0 = f.Pickled.load(data)
        except Exception:
            agg.count("refused_parse")
            continue
        big = len(data) > 30000         # tracing copies the memo at every opcode: quadratic on big pickles
        qs_here = QUERIES if not order else ["check_safety", "unparse", "to_dict", "properties"]
        if big:
            qs_here = [q for q in qs_here if not q.startswith("trace")]
        try:
            expanded = expanded_size(p0.ast)
        except RecursionError:
            expanded = 0
        except Exception:
            expanded = 0
        if expanded > 300000:
            # a value shared from many places is decompiled to one node referenced from all of them; walking or printing
            # the tree visits it once per reference (minutes per question for a few generated values): such inputs are
            # left out - decided on the bytes alone, so every process leaves out the same ones
            agg.count("inputs_skipped_tree_expands_over_300k_nodes")
            continue
        t_base = time.time()
        base = {q: answer(f, analysis, tracing, f.Pickled.load(data), q) for q in qs_here}
        t_base = time.time() - t_base
        ch = h(data)
        nontrivial = not str(base["unparse"]).startswith("EXC:") and len(p0) >= 3
        digest = hashlib.sha1(repr(sorted(base.items())).encode("utf-8", "replace")).hexdigest()[:12]
        agg.hist("answers", f"{order + '|' if order else ''}{ch}:{digest}")
        if table_only:
            agg.case(ch, nontrivial)
            continue
        if not agg.case(ch, nontrivial, {"label": label, "ops": [o.info.name for o in p0][:16],
                                         "unparse": str(base["unparse"])[:160],
                                         "severity": base["check_safety"][0] if isinstance(base["check_safety"], tuple) else base["check_safety"]}):
            continue
        if t_base > 6.0:
            # one round of questions takes seconds (shared sub-structures are walked once per reference by the analyses):
            # the ~60 further rounds below would make this shard a straggler; the first answers are in the cross-process
            # table all the same.  (a bound on work, never a verdict)
            agg.count("slow_inputs_first_answers_only")
            continue
        # re-parsed copies that sat elsewhere in their stream: the answers may only depend on the bytes
        try:
            st = io.BytesIO(b"JUNKJUNKJUNK" + data)
            st.seek(12)
            variants = [("stream-offset", f.Pickled.load(st)),
                        ("stack-member", f.StackedPickle.load(b"\x80\x02]q\x00(K\x01K\x02e." + data)[1]),
                        ("stack-member-p0", f.StackedPickle.load(b"(lp0\nI1\na." + data + b"N.")[1])]
        except Exception:
            variants = []
        # the same bytes arriving through raw streams that hand out a few bytes per read (sockets, pipes, FIFOs)
        # (not seekable ones: a *seekable* raw stream with short reads is outside the file protocol pickletools and
        # the stock unpickler themselves rely on - read(n) returns n bytes unless the input ends)
        for vname, chunk, seekable in (("raw-dribble-1", 1, False), ("raw-dribble-7", 7, False), ("raw-dribble-4096", 4096, False)):
            if big and chunk < 4096:
                continue
            try:
                variants.append((vname, f.Pickled.load(Dribble(data, chunk, seekable))))
                sp = f.StackedPickle.load(Dribble(b"N." + data + b"K\x01.", chunk, seekable))
                if len(sp) != 3:
                    raise ValueError(f"stack of 3 parsed into {len(sp)}")
                variants.append((vname + "-stack-member", sp[1]))
            except RecursionError:
                pass
            except Exception as e:
                agg.violation(f"position-dependent:parse:{vname}",
                              f"the bytes parse from a byte string but not from a raw stream that returns at most {chunk} "
                              f"bytes per read: {type(e).__name__}: {str(e)[:100]}",
                              {"label": label, "hex": data.hex(), "sequence": [vname, "parse"]})
        if not big and int(ch[:2], 16) % 4 == 0:
            # the same questions while the process's loader functions are replaced: fickling's own safe ML environment,
            # then another library's restricted pickle.loads / pickle.load (an answer is about the bytes, whatever
            # protects unpickling at that moment)
            import pickle as _pk
            import _pickle as _cpk
            import fickling.hook as _hook
            saved = (_pk.load, _pk.loads, _cpk.load, _cpk.loads)

            def _refusing(*a, **k):
                raise _pk.UnpicklingError("vp: unpickling is disabled in this process")
            for hname in ("ml-environment-armed", "foreign-restricted-loads"):
                try:
                    if hname == "ml-environment-armed":
                        _hook.activate_safe_ml_environment()
                    else:
                        _pk.load = _pk.loads = _refusing
                    pv = f.Pickled.load(data)
                    for q in ("check_safety", "unparse", "to_dict", "properties"):
                        got = answer(f, analysis, tracing, pv, q)
                        agg.count("answers_compared")
                        agg.count("answers_while_loaders_replaced")
                        if got != base[q]:
                            agg.violation(f"depends-on-process-state:{q}:{hname}",
                                          f"'{q}' of the same bytes differs while {hname}",
                                          {"label": label, "hex": data.hex(), "sequence": [hname, q],
                                           "first": str(base[q])[:300], "later": str(got)[:300]})
                            break
                finally:
                    try:
                        _hook.remove_hook()
                    except Exception:
                        pass
                    _pk.load, _pk.loads, _cpk.load, _cpk.loads = saved
        for vname, pv in variants:
            for q in ("check_safety", "unparse", "to_dict", "dumps"):
                got = answer(f, analysis, tracing, pv, q)
                agg.count("answers_compared")
                if got != base[q]:
                    agg.violation(f"position-dependent:{q}:{vname}",
                                  f"'{q}' of the same bytes differs when the pickle was parsed as {vname}",
                                  {"label": label, "hex": data.hex(), "sequence": [vname, q],
                                   "first": str(base[q])[:300], "later": str(got)[:300]})
                    break
        # a query that fails for a reason outside the bytes (the stack happens to be nearly exhausted) must not colour the
        # answers the same object gives afterwards
        if nontrivial and not big and (label.startswith("directed") or int(ch[:2], 16) % 6 == 0):
            import sys
            pt = f.Pickled.load(data)
            lim = sys.getrecursionlimit()
            depth = len(__import__("inspect").stack(0))
            failed = 0
            for margin in (25, 45, 70, 110):
                sys.setrecursionlimit(depth + margin)
                try:
                    for q in ("properties", "unparse", "check_safety"):
                        try:
                            if q == "properties":
                                pt.properties
                            elif q == "unparse":
                                pt.ast
                            else:
                                analysis.check_safety(pt)
                        except RecursionError:
                            failed += 1
                        except Exception:
                            pass
                finally:
                    sys.setrecursionlimit(lim)
            if failed:
                agg.count("queries_failed_on_a_short_stack", failed)
                for q in ("check_safety", "unparse", "properties", "unsafe_imports", "to_dict"):
                    got = answer(f, analysis, tracing, pt, q)
                    agg.count("answers_compared")
                    if got != base[q]:
                        agg.violation(f"transient-failure-remembered:{q}",
                                      f"after queries on this object failed with RecursionError on a nearly exhausted stack, '{q}' "
                                      f"answers differently from a fresh object, with the whole stack available",
                                      {"label": label, "hex": data.hex()[:3000], "sequence": ["short-stack", q],
                                       "first": str(base[q])[:300], "later": str(got)[:300]})
                        break
        rng = asm.rng_for(ctx.seed, "c13seq" + ch)
        seqs = []
        if big:
            seqs.append([q for q in ("check_safety", "unparse", "properties", "check_safety", "to_dict", "unparse") if q in base])
        elif nontrivial:
            # bounded-exhaustive ordered selections on a deterministic subset of the corpus,
            # random sequences with repetition on everything
            if int(ch[:2], 16) % (12 if ctx.tier == "quick" else 6) == 0 and len(data) < 2500:
                qs = [q for q in QUERIES if q not in ("dumps", "ast_dump", "str_results")]
                # (ordered selections of 3 out of ~12 questions are 1320 sequences: only for short inputs)
                seqs += [list(s) for s in itertools.permutations(qs, maxlen if len(data) < 200 else min(maxlen, 2))]
            for _ in range(3 if ctx.tier == "quick" else 5):
                seqs.append([rng.choice(QUERIES) for _ in range(rng.randint(3, 8))])
        else:
            seqs.append([rng.choice(QUERIES) for _ in range(4)])
        shared = p0
        for si, seq in enumerate(seqs):
            agg.count("query_sequences")
            p = shared if si % 2 == 0 else f.Pickled.load(data)     # same object / re-parsed copy
            for qi, q in enumerate(seq):
                got = answer(f, analysis, tracing, p, q)
                agg.count("answers_compared")
                if got != base[q]:
                    first = "repeat" if q in seq[:qi] else "order"
                    agg.violation(f"{first}-differs:{q}",
                                  f"answer to '{q}' differs from the first answer for the same bytes "
                                  f"(after {seq[:qi]})",
                                  {"label": label, "hex": data.hex(), "sequence": seq[:qi + 1],
                                   "first": str(base[q])[:300], "later": str(got)[:300]})
                    break
                d = p.dumps()
                if d != base["dumps"]:
                    agg.violation(f"observer-effect:dumps-after-{q}",
                                  "serialised bytes changed after a read-only query",
                                  {"label": label, "hex": data.hex(), "sequence": seq[:qi + 1]})
                    break


# what else differs between the fresh processes besides the hash seed (hash seed "0" is the baseline, untouched)
ENVIRONMENTS = {
    "0": {},
    "1": {"LC_ALL": "C", "LANG": "C", "PYTHONUTF8": "0", "PYTHONIOENCODING": "ascii:backslashreplace", "COLUMNS": "20",
          "TZ": "Pacific/Kiritimati", "VERIF_C13_ENVIRONMENT": "preimported"},
    "2": {"LC_ALL": "C.UTF-8", "PYTHONUTF8": "1", "PYTHONIOENCODING": "utf-16", "COLUMNS": "400", "NO_COLOR": "1",
          "HOME": "/nonexistent", "TMPDIR": "/nonexistent-tmp", "VERIF_C13_ENVIRONMENT": "moved"},
    "other": {"PYTHONWARNINGS": "ignore", "PYTHONDEVMODE": "1", "VERIF_C13_ENVIRONMENT": "moved"},
}


def parent_phase(tier, seed, merged):
    """Cross-process: one corpus (generated once) answered by fresh processes under several hash
    seeds; the digests are diffed here."""
    from vp.core import WORK
    merged["hists"].pop("answers", None)
    cdir = os.path.join(WORK, f"c13corpus-{os.getpid()}")
    os.makedirs(cdir, exist_ok=True)
    n = CONFIG["nshards"][tier]
    seeds = ["0", "1", "2", str(1000 + (seed * 7919) % 4000)]
    tables = {}
    try:
        m = merge(run_shards("C13", tier, seed, n, env={"VERIF_C13_DUMP": cdir}, timeout=CONFIG["timeout"][tier]))
        merged["inconclusive"].extend(m["inconclusive"])
        for hs in seeds:
            env = {"VERIF_C13_TABLE": "1", "VERIF_C13_CORPUS": cdir}
            env.update(ENVIRONMENTS.get(hs, ENVIRONMENTS["other"]))
            m = merge(run_shards("C13", tier, seed, n, env=env, hashseed=hs, timeout=CONFIG["timeout"][tier]))
            merged["inconclusive"].extend(m["inconclusive"])
            t = {}
            for k in m["hists"].get("answers", {}):
                ch, dg = k.split(":")
                t.setdefault(ch, set()).add(dg)
            tables[hs] = t
    finally:
        shutil.rmtree(cdir, ignore_errors=True)
    # order sensitivity: the vocabulary corpus answered in one process, forward and reversed
    otab = {"fwd": {}, "rev": {}}
    m = merge(run_shards("C13", tier, seed, 2, env={"VERIF_C13_TABLE": "1", "VERIF_C13_ORDER": "1"},
                         timeout=CONFIG["timeout"][tier]))
    merged["inconclusive"].extend(m["inconclusive"])
    for k in m["hists"].get("answers", {}):
        order, rest = k.split("|", 1)
        ch, dg = rest.split(":")
        otab[order].setdefault(ch, set()).add(dg)
    nord = 0
    for ch, dgs in otab.get("fwd", {}).items():
        nord += 1
        if ch in otab.get("rev", {}) and otab["rev"][ch] != dgs:
            v = merged["violations"].setdefault(
                "depends-on-what-was-analysed-before",
                {"count": 0, "what": "verdict / decompile of the same bytes differ when the corpus is analysed in reversed "
                                     "order in one process (state carried from one pickle to the next)", "witnesses": []})
            v["count"] += 1
            if len(v["witnesses"]) < 3:
                v["witnesses"].append({"case_hash": ch})
    merged["counters"]["order_sensitivity_cases"] = nord
    base = tables.get("0", {})
    ncases = 0
    for hs in seeds[1:]:
        other = tables.get(hs, {})
        if set(other) != set(base):
            merged["inconclusive"].append(f"hashseed {hs}: answered {len(other)} cases, hashseed 0 answered {len(base)}")
        for ch, dgs in other.items():
            ncases += 1
            if ch in base and dgs != base[ch]:
                v = merged["violations"].setdefault(
                    "cross-process-differs",
                    {"count": 0, "what": "answers for the same bytes differ between fresh processes with a different PYTHONHASHSEED / locale / encoding / working directory / argv / pre-imported modules",
                     "witnesses": []})
                v["count"] += 1
                if len(v["witnesses"]) < 3:
                    v["witnesses"].append({"case_hash": ch, "hashseed": hs, "digests": [sorted(base[ch]), sorted(dgs)]})
    merged["counters"]["cross_process_cases"] = ncases
    return {"hash_seeds_compared": seeds, "cross_process_cases": ncases,
            "cross_process_corpus": len(base)}


def replay(ctx, payload):
    import fickling.fickle as f
    import fickling.analysis as analysis
    from fickling import tracing
    case = payload["case"]
    if "hex" not in case:
        ctx.agg.inconclusive.append("cross-process witness: re-run the check to reproduce")
        return
    data = bytes.fromhex(case["hex"])
    seq = case["sequence"]
    base = {q: answer(f, analysis, tracing, f.Pickled.load(data), q) for q in QUERIES}
    p = f.Pickled.load(data)
    ctx.agg.case("replay", True)
    for q in seq:
        got = answer(f, analysis, tracing, p, q)
        if got != base[q]:
            ctx.agg.violation(f"differs:{q}", "replayed", case)

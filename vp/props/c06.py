"""C06 - Parse / re-serialise is byte-exact; stacked pickles partition the input."""
import io
import os
import pickle
import shutil
import pickletools

from vp import asm, gen, refvm, workload
from vp.core import h

CONFIG = dict(
    level="exploration",
    rule=("inputs P||T where P is a complete pickle (every protocol's encoding of generated values framed "
          "and unframed, one program per pickle opcode, argument-carrying opcodes at boundary lengths "
          "255/256/65535/65536, typed-assembler programs) and T in {empty, junk, '.', another pickle, a "
          "partial pickle}; delivered as bytes, bytearray, BytesIO at offset k>0, a real file, a "
          "BufferedReader, and two non-seekable streams (os.pipe, wrapper class); plus concatenations of "
          "1..6 pickles parsed as a stack.  P's end is the reference VM's own stopping point (first STOP "
          "token where the VM rejects the program).  A case is one distinct (P, T, stream kind); "
          "non-trivial = P has a variable-length argument or T is not empty."),
    assumptions=[
        "P is delimited by the stopping point of CPython's pure-Python unpickler (stub globals) or, for "
        "programs that VM rejects, by the first STOP token of pickletools.genops",
        "a parse refused with NotImplementedError (opcode fickling does not model) is not a C06 violation",
        "stacks with an undecodable tail are observed and counted but only pure concatenations are asserted",
    ],
    min_nontrivial={"quick": 1500, "thorough": 30000},
    nshards={"quick": 8, "thorough": 16},
    timeout={"quick": 600, "thorough": 3600},
    required_counters=("copied_result_checks", "dump_file_checks", "bytes_checks", "seekable_checks", "nonseekable_checks", "stack_checks"),
)

VARLEN = {"STRING", "BINSTRING", "SHORT_BINSTRING", "BINBYTES", "SHORT_BINBYTES", "BINBYTES8", "BYTEARRAY8",
          "UNICODE", "SHORT_BINUNICODE", "BINUNICODE", "BINUNICODE8", "INT", "LONG", "LONG1", "LONG4", "FLOAT",
          "GLOBAL", "INST", "PUT", "GET", "PERSID", "FRAME"}


class NonSeekable(io.RawIOBase):
    """Wrapper that hides seek/tell; records how many bytes were pulled from it."""

    def __init__(self, data, chunk=None):
        self._b = io.BytesIO(data)
        self.pulled = 0
        self._chunk = chunk          # at most this many bytes per read (a short read is not end of input)

    def readable(self):
        return True

    def seekable(self):
        return False

    def readinto(self, b):
        if self._chunk is None:
            n = self._b.readinto(b)
        else:
            got = self._b.read(min(len(b), self._chunk))
            b[:len(got)] = got
            n = len(got)
        self.pulled += n or 0
        return n

    def seek(self, *a):
        raise io.UnsupportedOperation("seek")

    def tell(self):
        raise io.UnsupportedOperation("tell")


def pickle_end(data):
    """Stopping point of the stock (pure-Python, stubbed) unpickler, else first STOP token."""
    vm = refvm.RefVM(data)
    try:
        vm.run()
        return vm._file_read.__self__.tell(), "vm"
    except Exception:
        pass
    try:
        for op, arg, pos in pickletools.genops(data):
            if op.name == "STOP":
                return pos + 1, "genops"
    except Exception:
        return None, None
    return None, None


def boundary_programs():
    A = asm
    out = []
    for n in (0, 1, 255):
        out.append((A.SBU("x" * n),))
        out.append((A.SHORT_BINBYTES(b"y" * n),))
        out.append((A.SHORT_BINSTRING("z" * n),))
    for n in (0, 255, 256, 65535, 65536, 70000):
        out.append((A.BINUNICODE("x" * n),))
        out.append((A.BINBYTES(b"y" * n),))
        out.append((A.BINSTRING("z" * n),))
    # large opcodes in the middle of small ones (buffer sizes 8 KiB and 64 KiB are where writers / readers switch strategy)
    for n in (8191, 8192, 8193, 65535, 65536, 65537, 140000):
        out.append((A.PROTO(4), A.MARK, A.BININT1(1), A.SBU("k"), A.BINBYTES(b"y" * n), A.BININT1(2), A.TUPLE))
        out.append((A.PROTO(2), A.EMPTY_LIST, A.BINPUT(0), A.BINUNICODE("x" * n), A.APPEND, A.NONE, A.APPEND))
        out.append((A.NONE, A.POP, A.BINSTRING("z" * n), A.BINBYTES(b"w" * n), A.TUPLE2))
    # encodings a CPython pickler never writes but every unpickler reads: padded LONG1 / LONG4, signs and leading zeros in
    # text ints, both quote styles, exponent floats - re-serialising must give them back, not their canonical twins
    raw = lambda name, b: asm.Sym(name, b, "push", "o")  # noqa: E731
    out += [(raw("LONG1-padded-1", b"\x8a\x02\x01\x00"),), (raw("LONG1-padded-0", b"\x8a\x01\x00"),),
            (raw("LONG1-padded-neg", b"\x8a\x04\xff\xff\xff\xff"),), (raw("LONG1-255-zeros", b"\x8a\xff" + b"\x00" * 255),),
            (raw("LONG4-padded", b"\x8b\x03\x00\x00\x00\x05\x00\x00"),), (raw("LONG4-empty", b"\x8b\x00\x00\x00\x00"),),
            (raw("INT-leading-zeros", b"I007\n"),), (raw("INT-plus", b"I+5\n"),), (raw("INT-minus-zero", b"I-0\n"),),
            (raw("LONG-no-suffix", b"L5\n"),), (raw("LONG-suffix", b"L5L\n"),), (raw("LONG-leading-zero", b"L005L\n"),),
            (raw("STRING-double-quotes", b'S"x"\n'),), (raw("STRING-single-quotes", b"S'x'\n"),),
            (raw("PUT-leading-zero", b"N"), raw("PUT01", b"p01\n")), (raw("BINFLOAT-negzero", b"G\x80" + b"\x00" * 7),),
            (raw("a", b"I1\n"), raw("b", b"I01\n"), raw("c", b"I1\n"), raw("d", b"I00\n"), raw("e", b"I0\n"), A.TUPLE3, A.TUPLE3),
            (raw("f", b"G" + b"\x00" * 8), raw("g", b"G\x80" + b"\x00" * 7), A.TUPLE2),
            (raw("h", b"\x8a\x01\x05"), raw("i", b"\x8a\x02\x05\x00"), raw("j", b"\x8a\x01\x05"), A.TUPLE3)]
    out += [(A.BINUNICODE8("u" * 300),), (A.BINBYTES8(b"b" * 300),), (A.BYTEARRAY8(b"a" * 300),),
            (A.BINUNICODE("é" * 128),), (A.SBU("中" * 85),), (A.BINUNICODE("\U0001f600" * 64),)]
    for v in (0, 1, -1, 127, 128, -128, 255, 2**15, 2**63, -2**63, 2**(8 * 254), -(2**(8 * 254)), 2**(8 * 300)):
        b = asm.pickle.encode_long(v)
        if len(b) < 256:
            out.append((A.LONG1(v),))
        out.append((A.LONG4(v),))
        out.append((A.LONG(v),))
        out.append((A.INT(v),))
    out += [(A.STRING("a\\b'c\"d\n\r\t\x00"),), (A.UNICODE("a\r\nb\\c\x00\x1aé"),), (A.UNICODE(""),),
            (A.FLOAT(1.5),), (A.FLOAT(-1e-300),), (A.BINFLOAT(2.5),), (A.INT_BOOL(True),), (A.INT_BOOL(False),),
            (A.NONE, A.PUT(0)), (A.NONE, A.PUT(2**31 - 1)), (A.NONE, A.BINPUT(255)), (A.NONE, A.LONG_BINPUT(2**32 - 1)),
            (A.NONE, A.PUT(77), A.GET(77), A.TUPLE2), (A.GLOBAL("a.b.c", "d.e"),), (A.GLOBAL("mod with space", "n"),),
            (A.MARK, A.INST("m", "C")), (asm.Sym("PERSID", b"Psome pid with spaces\n", "push", "o"),),
            (A.EXT1(255),), (asm.Sym("EXT2", b"\x83\xff\xff", "push", "o"),), (asm.Sym("EXT4", b"\x84\xff\xff\xff\x7f", "push", "o"),),
            (asm.Sym("FRAME0", b"\x95" + (0).to_bytes(8, "little"), "nop"), A.NONE),
            (asm.Sym("FRAMEbig", b"\x95" + (2**40).to_bytes(8, "little"), "nop"), A.NONE),
            (A.PROTO(0), A.NONE), (A.PROTO(5), A.NONE), (A.PROTO(255), A.NONE), (A.PROTO(2), A.PROTO(4), A.NONE),
            (A.SHORT_BINBYTES(b"x"), asm.Sym("READONLY_BUFFER", b"\x98", "nop")),
            (asm.Sym("NEXT_BUFFER", b"\x97", "push", "o"),)]
    for p in out:
        yield tuple(p) + (A.STOP,)


def tails(rng, other):
    return [("none", b""), ("junk", bytes(rng.randrange(256) for _ in range(rng.randint(1, 30)))),
            ("stop", b"."), ("pickle", other), ("partial", other[:max(1, len(other) // 2)]),
            ("zeros", b"\x00" * 7), ("text", b"hello world\n")]


def check_one(ctx, label, P_in, rng, other):
    f = __import__("fickling.fickle", fromlist=["x"])
    agg = ctx.agg
    end, how = pickle_end(P_in)
    if end is None:
        agg.count("no_complete_pickle")
        return
    P = P_in[:end]
    names = gen.op_names(P) or []
    varlen = any(n in VARLEN for n in names)
    agg.count("delimited_by_" + how)
    for tname, T in tails(rng, other):
        data = P + T
        for kind in ("bytes", "bytearray", "bytesio@k", "file", "buffered", "pipe", "wrapper", "wrapper-dribble", "mmap@k", "file-clobbered", "file-relative-clobbered"):
            ch = h(kind.encode() + b"|" + tname.encode() + b"|" + data)
            if not ctx.mine(ch):
                continue
            nontrivial = varlen or bool(T)
            if not agg.case(ch, nontrivial, {"P_ops": names[:12], "P_len": len(P), "tail": tname,
                                             "stream": kind, "P_hex": P[:40].hex()}):
                continue
            run_kind(ctx, f, label, kind, tname, P, T, names)


def witness(label, kind, tname, P, T, **kw):
    w = {"label": label, "stream": kind, "tail": tname, "hex": P.hex() if len(P) < 4000 else P[:4000].hex(),
         "P_len": len(P), "tail_hex": T[:80].hex(), "ops": (gen.op_names(P) or [])[:30]}
    w.update(kw)
    return w


def run_kind(ctx, f, label, kind, tname, P, T, names):
    agg = ctx.agg
    data = P + T
    junk = b"JUNKJ"
    stream = None
    tmp = None
    rfd = None
    try:
        if kind == "bytes":
            src = data
        elif kind == "bytearray":
            src = bytearray(data)
        elif kind == "bytesio@k":
            stream = io.BytesIO(junk + data)
            stream.seek(len(junk))
            src = stream
        elif kind in ("file", "buffered", "file-clobbered", "file-relative-clobbered"):
            tmp = os.path.join(ctx.scratch, f"c06_{os.getpid()}.bin")
            with open(tmp, "wb") as fh:
                fh.write(junk + data)
            if kind == "file-relative-clobbered":
                os.chdir(ctx.scratch)
                stream = open(os.path.basename(tmp), "rb")
            else:
                stream = open(tmp, "rb", buffering=0 if kind == "file" else 64)
            stream.seek(len(junk))
            src = stream
        elif kind == "mmap@k":
            import mmap
            tmp = os.path.join(ctx.scratch, f"c06_{os.getpid()}.map")
            with open(tmp, "wb") as fh:
                fh.write(junk + data)
            fobj = open(tmp, "rb")
            stream = mmap.mmap(fobj.fileno(), 0, access=mmap.ACCESS_READ)
            fobj.close()
            stream.seek(len(junk))
            src = stream
        elif kind == "pipe":
            if len(data) > 60000:      # a pipe buffer is 64 kB; larger inputs would need a writer thread
                return
            rfd, wfd = os.pipe()
            os.write(wfd, data)
            os.close(wfd)
            stream = os.fdopen(rfd, "rb", buffering=0)
            src = stream
        else:
            stream = NonSeekable(data, chunk=3 if kind == "wrapper-dribble" else None)
            src = stream
        try:
            p = f.Pickled.load(src)
        except NotImplementedError:
            agg.count("refused_unmodelled_opcode")
            return
        except Exception as e:
            agg.violation(f"parse-fails:{type(e).__name__}:{kind}",
                          f"input begins with a complete pickle but Pickled.load raised {type(e).__name__}: {str(e)[:100]}",
                          witness(label, kind, tname, P, T))
            return
        if kind in ("file-clobbered", "file-relative-clobbered"):
            # what was parsed is what is serialised, whatever happens to the file afterwards: it is truncated and
            # rewritten with other bytes, removed, and the working directory changes
            stream.close()
            stream = None
            with open(tmp, "wb") as fh:
                fh.write(b"\x80\x02]q\x00." + b"\xee" * 20)
            os.remove(tmp)
            tmp = None
            decoy_dir = os.path.join(ctx.scratch, "c06_elsewhere")
            os.makedirs(decoy_dir, exist_ok=True)
            with open(os.path.join(decoy_dir, f"c06_{os.getpid()}.bin"), "wb") as fh:
                fh.write(b"\xdd" * (len(junk) + len(data)))
            os.chdir(decoy_dir)
        out = p.dumps()
        if out != P:
            agg.violation(f"dumps-differs:{kind}",
                          "re-serialising the untouched parse does not reproduce the first pickle's bytes",
                          witness(label, kind, tname, P, T, dumps_hex=out[:200].hex(), dumps_len=len(out)))
        # other ways to get at the bytes: opcode iteration, dumps_partial
        try:
            it = b"".join(op.data for op in p.opcodes)
            n = len(p)
            k = n // 2
            part = p.dumps_partial(0, k) + p.dumps_partial(k, n)
            agg.count("partial_dump_checks")
            if it != P or part != P or p.nb_opcodes != n:
                agg.violation(f"partial-dump-differs:{kind}",
                              "opcodes() / dumps_partial(0,k)+dumps_partial(k,n) do not reproduce the first pickle's bytes",
                              witness(label, kind, tname, P, T, k=k, n=n))
        except Exception as e:
            agg.violation(f"partial-dump-raises:{type(e).__name__}", f"dumps_partial / opcodes raised: {str(e)[:100]}",
                          witness(label, kind, tname, P, T))
        # the streaming twin of dumps(): same bytes, into an in-memory and into a real file object
        try:
            buf = io.BytesIO()
            p.dump(buf)
            dumped = buf.getvalue()
            tmp2 = os.path.join(ctx.scratch, f"c06_dump_{os.getpid()}.bin")
            with open(tmp2, "wb") as fh:
                p.dump(fh)
            with open(tmp2, "rb") as fh:
                dumped_file = fh.read()
            os.remove(tmp2)
            agg.count("dump_file_checks")
            if dumped != P or dumped_file != P:
                agg.violation(f"dump-file-differs:{kind}",
                              "Pickled.dump(file) of the untouched parse does not write the first pickle's bytes (dumps() "
                              + ("does" if out == P else "does not either") + ")",
                              witness(label, kind, tname, P, T, dumped_hex=dumped[:120].hex(), dumped_len=len(dumped)))
        except Exception as e:
            agg.violation(f"dump-file-raises:{type(e).__name__}", f"Pickled.dump(file) raised: {str(e)[:100]}",
                          witness(label, kind, tname, P, T))
        if sum(len(op.data) for op in p) != len(P):
            agg.violation("opcode-data-partition", "opcode byte slices do not partition the pickle",
                          witness(label, kind, tname, P, T))
        if kind in ("file-clobbered", "file-relative-clobbered"):
            agg.count("clobbered_file_checks")
            return
        if kind == "mmap@k":
            # (an mmap has no seekable() before Python 3.13, so it is read like a non-seekable stream; only that the
            # pickle at the map's *current position* was parsed is asserted here - by the dumps comparison above)
            agg.count("mmap_checks")
            return
        if kind in ("bytes", "bytearray"):
            agg.count("bytes_checks")
            if kind == "bytearray" and bytes(src) != data:
                agg.violation("input-altered:bytearray", "the caller's bytearray was modified",
                              witness(label, kind, tname, P, T))
            return
        if kind in ("bytesio@k", "file", "buffered"):
            agg.count("seekable_checks")
            pos = stream.tell()
            if pos != len(junk) + len(P):
                agg.violation(f"stream-position:{kind}",
                              f"stream left at {pos}, expected {len(junk) + len(P)} (immediately after the first pickle)",
                              witness(label, kind, tname, P, T, pos=pos))
            rest = stream.read()
            if rest != T:
                agg.violation(f"tail-altered:{kind}", "bytes following the first pickle are not what the caller wrote",
                              witness(label, kind, tname, P, T, rest_hex=rest[:80].hex()))
            if kind == "bytesio@k" and stream.getvalue() != junk + data:
                agg.violation("input-altered:bytesio", "underlying buffer modified", witness(label, kind, tname, P, T))
            return
        # non-seekable: what follows must still be readable from the caller's stream
        agg.count("nonseekable_checks")
        rest = stream.read()
        rest = rest or b""
        if rest != T:
            agg.violation("nonseekable-drained" if rest == b"" and T else f"nonseekable-tail-differs:{kind}",
                          "after parsing the first pickle from a non-seekable stream the bytes that follow are "
                          "no longer readable from the caller's stream (the whole stream was buffered)",
                          witness(label, kind, tname, P, T, rest_len=len(rest)))
    finally:
        os.chdir(ctx.scratch)
        if stream is not None:
            try:
                stream.close()
            except Exception:
                pass
        if tmp and os.path.exists(tmp):
            os.remove(tmp)


class NoProgress(RuntimeError):
    pass


class Budgeted(io.BytesIO):
    """BytesIO with a budget of stream operations proportional to its length: a parser that keeps asking
    without ever consuming (a logical-step watchdog, not a wall-clock one) is stopped and reported."""

    def __init__(self, data):
        super().__init__(data)
        self._budget = 400 * len(data) + 50000

    def _spend(self):
        self._budget -= 1
        if self._budget < 0:
            raise NoProgress("vp: stream operation budget exhausted")

    def read(self, *a):
        self._spend()
        return super().read(*a)

    def readline(self, *a):
        self._spend()
        return super().readline(*a)

    def tell(self):
        self._spend()
        return super().tell()

    def seek(self, *a):
        self._spend()
        return super().seek(*a)


def stack_checks(ctx, pool, rng, n_stacks):
    f = __import__("fickling.fickle", fromlist=["x"])
    agg = ctx.agg
    stacks = []
    for i in range(n_stacks):
        k = rng.randint(1, 6)
        parts = [rng.choice(pool) for _ in range(k)]
        stacks.append((i, k, parts, b"".join(parts)))
    # the budgeted stream kind goes first over all stacks: if stack parsing does not terminate it is seen
    # there, and the unbudgeted kinds (which would hang this child) are skipped
    for kind in ("bytesio", "bytes", "wrapper", "wrapper-dribble"):
        for i, k, parts, data in stacks:
            ch = h(b"stack|" + kind.encode() + data)
            if not ctx.mine(ch):
                continue
            if not agg.case(ch, k > 1, {"stack_of": k, "stream": kind, "part_lens": [len(x) for x in parts]}):
                continue
            try:
                src = data if kind == "bytes" else (Budgeted(data) if kind == "bytesio" else NonSeekable(data, chunk=5 if kind == "wrapper-dribble" else None))
                sp = f.StackedPickle.load(src)
            except NoProgress:
                agg.violation("stack-parse-no-progress",
                              f"parsing a concatenation of {k} pickles as a stack keeps re-reading the stream without "
                              f"consuming it (stopped after {400 * len(data) + 50000} stream operations)",
                              {"label": "stack", "hex": data[:3000].hex(), "k": k, "stream": kind,
                               "part_lens": [len(x) for x in parts]})
                return
            except NotImplementedError:
                agg.count("refused_unmodelled_opcode")
                continue
            except Exception as e:
                agg.violation(f"stack-parse-fails:{type(e).__name__}",
                              f"a concatenation of {k} complete pickles could not be parsed as a stack: {str(e)[:100]}",
                              {"label": "stack", "hex": data[:3000].hex(), "k": k, "stream": kind,
                               "part_lens": [len(x) for x in parts]})
                continue
            agg.count("stack_checks")
            got = [p.dumps() for p in sp]
            if len(sp) != k or got != parts or b"".join(got) != data:
                agg.violation("stack-partition",
                              f"stack of {k} pickles parsed into {len(sp)} elements or elements differ from the parts",
                              {"label": "stack", "hex": data[:3000].hex(), "k": k, "stream": kind,
                               "part_lens": [len(x) for x in parts], "got_lens": [len(x) for x in got]})
                continue
            if kind == "bytes":
                # the untouched result handed on as a copy (copy / deepcopy / shipped to another worker as a pickle of
                # the library's own object): the copy re-serialises to the same bytes as what it was copied from
                import copy
                for how, fn in (("copy", copy.copy), ("deepcopy", copy.deepcopy),
                                ("pickle-round-trip", lambda o: pickle.loads(pickle.dumps(o)))):
                    for whole in (False, True):
                        try:
                            cp = [x.dumps() for x in fn(sp)] if whole else [fn(x).dumps() for x in sp]
                        except RecursionError:
                            continue
                        except Exception as e:
                            cp = f"{type(e).__name__}: {str(e)[:80]}"
                        agg.count("copied_result_checks")
                        if cp != parts:
                            agg.violation(f"copy-of-result-differs:{how}",
                                          f"a {how} of the untouched {'stack' if whole else 'stack element'} re-serialises to other bytes than the "
                                          f"pickle it was parsed from ({cp if isinstance(cp, str) else [len(x) for x in cp]})",
                                          {"label": "stack", "hex": data[:3000].hex(), "k": k, "stream": kind, "copied": how,
                                           "part_lens": [len(x) for x in parts]})
                            break
    # stacks read from a file opened by a relative name, after the working directory moved to a place where another,
    # shorter file has the same name (what belongs to the open descriptor is what counts, not what the name means now)
    here = os.path.join(ctx.scratch, "c06_run_a")
    there = os.path.join(ctx.scratch, "c06_run_b")
    os.makedirs(here, exist_ok=True)
    os.makedirs(there, exist_ok=True)
    for i, k, parts, data in stacks[:: max(1, len(stacks) // 60)]:
        ch = h(b"stack|relative-chdir|" + data)
        if not ctx.mine(ch) or k < 2:
            continue
        agg.case(ch, True, {"stack_of": k, "stream": "file-relative-then-chdir", "part_lens": [len(x) for x in parts]})
        with open(os.path.join(here, "model.pkl"), "wb") as fh:
            fh.write(b"HD" + data)
        with open(os.path.join(there, "model.pkl"), "wb") as fh:
            fh.write(b"HD" + parts[0])
        os.chdir(here)
        st = open("model.pkl", "rb")
        try:
            st.seek(2)
            os.chdir(there)
            try:
                sp = f.StackedPickle.load(st)
                got = [p.dumps() for p in sp]
            except NotImplementedError:
                continue
            except Exception as e:
                agg.violation(f"stack-parse-fails:{type(e).__name__}:file-relative-then-chdir",
                              f"a stack of {k} pickles read from an open file after the working directory changed: {str(e)[:100]}",
                              {"label": "stack", "hex": data[:3000].hex(), "k": k, "stream": "file-relative-then-chdir",
                               "part_lens": [len(x) for x in parts]})
                continue
            agg.count("stack_checks")
            if got != parts:
                agg.violation("stack-partition:file-relative-then-chdir",
                              f"stack of {k} pickles read from an open file (relative name, working directory changed since) parsed "
                              f"into {len(got)} elements or other bytes",
                              {"label": "stack", "hex": data[:3000].hex(), "k": k, "stream": "file-relative-then-chdir",
                               "part_lens": [len(x) for x in parts], "got_lens": [len(x) for x in got]})
        finally:
            st.close()
            os.chdir(ctx.scratch)
    shutil.rmtree(here, ignore_errors=True)
    shutil.rmtree(there, ignore_errors=True)
    for i, k, parts, data in stacks:
        # stack followed by an undecodable tail: observed, not asserted
        if i % 5 == 0:
            try:
                sp = f.StackedPickle.load(data + b"\xfe\xfdjunk")
                agg.count("stack_with_junk_tail_parsed_silently" if len(sp) == k else "stack_with_junk_tail_other")
            except Exception as e:
                agg.count(f"stack_with_junk_tail_raises_{type(e).__name__}")


def corpus(ctx):
    tier = ctx.tier
    progs = []
    for prog in boundary_programs():
        progs.append(("boundary", asm.assemble(prog)))
    for name, prog in workload.per_opcode_programs():
        progs.append(("perop-" + name, asm.assemble(prog)))
    nval = {"quick": 120, "thorough": 2500}[tier]
    for v in workload.values(ctx.seed, nval):
        for label, data in gen.natural_pickles(v):
            progs.append(("nat-" + label, data))
    L = {"quick": 3, "thorough": 4}[tier]
    for prog in asm.enumerate_programs(L):
        progs.append(("exh", asm.assemble(prog)))
    nr = {"quick": 400, "thorough": 20000}[tier]
    for i in range(nr):
        progs.append(("rand", asm.assemble(asm.random_program(asm.rng_for(ctx.seed, f"c06r{i}"), max_len=25, unsupported_p=0.0))))
    return progs


def run_shard(ctx):
    progs = corpus(ctx)
    rng0 = asm.rng_for(ctx.seed, "c06-other")
    others = [d for _, d in progs if len(d) < 200]
    for i, (label, data) in enumerate(progs):
        rng = asm.rng_for(ctx.seed, f"c06t{i}")
        check_one(ctx, label, data, rng, rng0.choice(others))
    pool = []
    for _, d in progs:
        end, _how = pickle_end(d)
        if end is not None and end == len(d) and len(d) < 5000:
            pool.append(d)
    stack_checks(ctx, pool, asm.rng_for(ctx.seed, "c06-stack"), {"quick": 600, "thorough": 15000}[ctx.tier])


def replay(ctx, payload):
    case = payload["case"]
    f = __import__("fickling.fickle", fromlist=["x"])
    if case.get("label") == "stack":
        data = bytes.fromhex(case["hex"])
        parts, pos = [], 0
        for n in case["part_lens"]:
            parts.append(data[pos:pos + n])
            pos += n
        sp = f.StackedPickle.load(data)
        got = [p.dumps() for p in sp]
        ctx.agg.case("replay", True)
        if got != parts:
            ctx.agg.violation("stack-partition", "replayed", case)
        return
    P = bytes.fromhex(case["hex"])
    T = bytes.fromhex(case["tail_hex"])
    ctx.agg.case("replay", True)
    run_kind(ctx, f, case.get("label", "replay"), case["stream"], case["tail"], P, T, case.get("ops"))

"""C19 - Safety analysis is total on every pickle that decompiles."""
import ast
import io
import json

from vp import asm, gen, workload
from vp.core import h

CONFIG = dict(
    level="exploration",
    rule=("grid of (module category x attribute name) globals - builtins, documented dangerous modules and "
          "submodules, benign stdlib, non-stdlib, the modules individual rules special-case - crossed with "
          "attribute names rules special-case (eval, exec, compile, open, load, loads, getitem, attrgetter, "
          "itemgetter, methodcaller, runstring, _load_from_bytes, system, ...) used import-only (as result / "
          "popped / in a container) and called through every call opcode; plus assembler programs and "
          "natural pickles.  Whenever unparse(ast) succeeds: check_safety must return, every finding must "
          "be an AnalysisResult with a Severity and a str message, to_dict() must be JSON-serialisable, and "
          "the UnsafeFileError raised by the checked loader at threshold LIKELY_SAFE must carry the same "
          "report; on a sample the same bytes are also delivered as streams (file opened by str path, bytes path, "
          "descriptor, unbuffered; anonymous temporary file; pipe; streams whose .name is None or an object) with the "
          "same requirements.  A case is one distinct byte string; non-trivial = it decompiles and has >=1 import."),
    assumptions=[
        "the default analyser (all registered analyses after `import fickling`) is used",
        "the checked loader's final pickle.loads is replaced by a recorder in this child, so nothing is ever unpickled",
    ],
    min_nontrivial={"quick": 1500, "thorough": 20000},
    nshards={"quick": 8, "thorough": 16},
    timeout={"quick": 600, "thorough": 3600},
    required_counters=("worker_thread_checks", "deliveries_checked", "checked_then_edited", "nesting_cases_within_budget", "failed_checks_before_later_ones", "report_files_checked", "safety_checks", "loader_reports_compared"),
)

MODULES = {
    "builtins": ["builtins", "__builtin__", "__builtins__"],
    "dangerous": ["os", "posix", "nt", "subprocess", "sys", "socket", "shutil", "urllib", "urllib.request",
                  "urllib2", "torch.hub", "dill", "dill._dill", "code", "os.path"],
    "benign": ["collections", "operator", "datetime", "pickle", "_pickle", "marshal", "io", "functools",
               "importlib", "types", "copyreg", "_codecs"],
    "nonstd": ["vp_sink", "numpy", "torch", "torch.storage", "numpy.testing._private.utils", "foo", "foo.bar",
               "__main__", "numpy.core.multiarray", "torch._utils", "evalmod", "pip._internal"],
    # names outside ASCII (they reach finding messages, triggers and the report): Latin-1, Cyrillic, astral, a lone surrogate
    "unicode": ["mod\u00e8le", "\u043f\u0430\u043a\u0435\u0442", "pkg\ud800name", "numpy.\u00e9", "os.\U0001f600"],
}
ATTRS = ["{}", "{0}", "{name}", "{trigger}", "%s", "%(a)s", "{severity.name}", "$x", "a{b}c",
         "eval", "exec", "compile", "open", "load", "loads", "getitem", "attrgetter", "itemgetter",
         "methodcaller", "runstring", "_load_from_bytes", "system", "OrderedDict", "x", "__import__",
         "getattr", "_run_code", "execWrapper", "dtype", "Evil", "_reconstruct", "evaluate", "evalx",
         "\u00e9val", "lo\ud800ad", "\u4e2d"]
USES = ["import_result", "import_pop", "import_in_tuple", "call_REDUCE", "call_OBJ", "call_INST", "call_NEWOBJ",
        "call_NEWOBJ_EX", "call_REDUCE_pop", "call_twice", "stack_global_result", "stack_global_call"]


def build(mod, attr, use):
    g = gen.push_global("GLOBAL", mod, attr)
    sg = gen.push_global("STACK_GLOBAL", mod, attr)
    if use == "import_result":
        return g + b"."
    if use == "import_pop":
        return g + b"0N."
    if use == "import_in_tuple":
        return g + b"K\x01\x86."
    if use == "stack_global_result":
        return sg + b"."
    if use == "stack_global_call":
        return sg + b"(" + gen.arg_bytes(["a"]) + b"tR."
    if use == "call_REDUCE_pop":
        return gen.make_call("GLOBAL", "REDUCE", mod, attr, ["1+1"]) + b"0N."
    if use == "call_twice":
        c = gen.make_call("GLOBAL", "REDUCE", mod, attr, ["1+1"])
        return c + c + b"\x86."
    op = use.split("_", 1)[1]
    c = gen.make_call("INST" if op == "INST" else "GLOBAL", op, mod, attr, ["1+1", 2])
    return c + b"."


class FakePickle:
    """Stands in for the `pickle` module inside fickling.loader: records, never unpickles."""
    calls = []

    @classmethod
    def loads(cls, data, *a, **k):
        cls.calls.append(bytes(data))
        return ("vp-not-loaded", len(data))


def check(ctx, f, analysis, loader, UnsafeFileError, label, data):
    agg = ctx.agg
    try:
        p = f.Pickled.load(data)
        src = ast.unparse(p.ast)
    except RecursionError:
        agg.count("refused_recursion")
        return
    except Exception as e:
        agg.hist("refusals", type(e).__name__)
        # the check is asked anyway (a scanner does not decompile first): it may fail, but a failed check must not
        # disturb the ones that follow in this process
        try:
            analysis.check_safety(f.Pickled.load(data))
        except BaseException:
            agg.count("failed_checks_before_later_ones")
        try:
            loader.load(io.BytesIO(data))
        except BaseException:
            pass
        return
    ch = h(data)
    if not agg.case(ch, p.has_import, {"label": label, "decompile": src[:200]}):
        return
    w = {"label": label, "hex": data.hex(), "decompile": src[:400]}
    agg.count("safety_checks")
    try:
        res = analysis.check_safety(f.Pickled.load(data))
    except RecursionError:
        agg.count("refused_recursion")
        return
    except Exception as e:
        agg.violation(f"analysis-raises:{type(e).__name__}",
                      f"the pickle decompiles but check_safety raises {type(e).__name__}: {str(e)[:120]}", w)
        return
    for r in res.results:
        if not isinstance(r, analysis.AnalysisResult) or not isinstance(r.severity, analysis.Severity) \
                or not isinstance(r.message, str) or not r.message:
            agg.violation("malformed-finding", f"finding without Severity/str message: {r!r}"[:200], w)
            return
    try:
        d = res.to_dict()
        js = json.dumps(d)
        if not (isinstance(d.get("severity"), str) and d["severity"] == res.severity.name):
            raise ValueError("report's severity field is not the verdict's name")
    except Exception as e:
        agg.violation(f"report-not-json:{type(e).__name__}", f"to_dict() is not JSON-serialisable: {str(e)[:120]}", w)
        return
    agg.hist("severities", res.severity.name)
    # the optional report file (the CLI always asks for one): same verdict, nothing raised, the file holds the report
    import os
    rpath = os.path.join(ctx.scratch, "c19_report.json")
    try:
        if os.path.exists(rpath):
            os.remove(rpath)
        res2 = analysis.check_safety(f.Pickled.load(data), json_output_path=rpath)
        with open(rpath, "rb") as fh:
            raw = fh.read()
        doc = json.loads(raw.decode("utf-8", "surrogatepass") if b"\\u" in raw or raw.isascii() else raw.decode("utf-8", "surrogatepass"))
        agg.count("report_files_checked")
        if res2.severity != res.severity or json.dumps(doc, sort_keys=True) != json.dumps(d, sort_keys=True):
            agg.violation("report-file-differs", "the report written to json_output_path differs from to_dict()",
                          dict(w, file=raw[:300].decode("latin-1"), to_dict=js[:300]))
    except RecursionError:
        pass
    except Exception as e:
        agg.violation(f"analysis-raises:report-file:{type(e).__name__}",
                      f"check_safety(json_output_path=...) raises {type(e).__name__}: {str(e)[:120]}", w)
    finally:
        if os.path.exists(rpath):
            os.remove(rpath)
    if label.startswith(("directed", "perop", "grid")) or int(ch[:2], 16) % 8 == 0:
        check_deliveries(ctx, f, analysis, loader, UnsafeFileError, label, data, w)
    if label.startswith(("directed", "perop", "proto-sweep")) or int(ch[:2], 16) % 4 == 1:
        checked_then_edited(ctx, f, analysis, label, data, w)
    # the same report through the checked loader (threshold LIKELY_SAFE); nothing is unpickled
    FakePickle.calls.clear()
    try:
        out = loader.load(io.BytesIO(data))
        raised = None
    except UnsafeFileError as e:
        raised = e
    except Exception as e:
        agg.violation(f"loader-raises:{type(e).__name__}",
                      f"checked loader raises {type(e).__name__} instead of returning or UnsafeFileError", w)
        return
    agg.count("loader_reports_compared")
    if raised is None:
        if res.severity.name != "LIKELY_SAFE":
            agg.violation("loader-disagrees", "checked loader returned although the verdict is above LIKELY_SAFE", w)
        return
    if json.dumps(raised.info, sort_keys=True, default=str) != json.dumps(d, sort_keys=True, default=str):
        agg.violation("loader-report-differs", "UnsafeFileError.info differs from to_dict() of an independent run",
                      dict(w, info=str(raised.info)[:300], to_dict=str(d)[:300]))
        return
    # ... and at every other accepted severity below the verdict
    for t in ("POSSIBLY_UNSAFE", "SUSPICIOUS", "LIKELY_UNSAFE", "LIKELY_OVERTLY_MALICIOUS"):
        thr = getattr(analysis.Severity, t)
        if not (res.severity > thr):
            break
        try:
            loader.load(io.BytesIO(data), max_acceptable_severity=thr)
            continue
        except UnsafeFileError as e:
            agg.count("loader_reports_compared")
            if json.dumps(e.info, sort_keys=True, default=str) != json.dumps(d, sort_keys=True, default=str):
                agg.violation("loader-report-differs:threshold",
                              f"at accepted severity {t} UnsafeFileError.info differs from to_dict() of an independent run",
                              dict(w, threshold=t, info=str(e.info)[:300], to_dict=str(d)[:300]))
                return
        except Exception:
            return


def _streams(ctx, data):
    """(kind, opener) - the same bytes delivered as streams of several kinds; opener() returns a fresh stream."""
    import os
    import tempfile
    path = os.path.join(ctx.scratch, "c19-delivery.pkl")
    with open(path, "wb") as fh:
        fh.write(data)

    def tmpfile():
        t = tempfile.TemporaryFile(dir=ctx.scratch)
        t.write(data)
        t.seek(0)
        return t

    def pipe():
        r, wfd = os.pipe()
        os.write(wfd, data)
        os.close(wfd)
        return os.fdopen(r, "rb")

    def named(obj):
        def mk():
            b = io.BufferedReader(io.BytesIO(data))
            raw = io.BytesIO(data)

            class S(io.BufferedReader):
                name = obj
            return S(raw)
        return mk
    kinds = [("file-str-path", lambda: open(path, "rb")),
             ("file-bytes-path", lambda: open(os.fsencode(path), "rb")),
             ("file-unbuffered", lambda: open(path, "rb", buffering=0)),
             ("file-by-descriptor", lambda: os.fdopen(os.open(path, os.O_RDONLY), "rb")),
             ("temporary-file", tmpfile),
             ("name-is-none", named(None)), ("name-is-object", named(object()))]
    if len(data) < 60000:
        kinds.append(("pipe", pipe))
    return kinds


def check_deliveries(ctx, f, analysis, loader, UnsafeFileError, label, data, w):
    """Totality does not depend on how the bytes arrive: every stream kind gives a verdict, a JSON report and,
    through the loader, either a return or an UnsafeFileError whose report is the same."""
    agg = ctx.agg
    if len(data) < 5000:
        # ... nor on which thread asks: a worker thread (pool of scanners, web handler) gets a verdict too
        from vp import threads

        def ask():
            r = analysis.check_safety(f.Pickled.load(data))
            json.dumps(r.to_dict(), sort_keys=True)
            try:
                loader.load(io.BytesIO(data))
            except UnsafeFileError as e:
                json.dumps(e.info, sort_keys=True)
            return r.severity.name
        kind, got = threads.in_worker(ask)
        agg.count("worker_thread_checks")
        if kind != "ok" and not isinstance(got, RecursionError):
            agg.violation("analysis-raises:worker-thread",
                          f"the pickle decompiles and is checked fine from the main thread, but from a worker thread the check raises "
                          f"{type(got).__name__}: {str(got)[:120]}", dict(w, delivery="worker-thread"))
    for kind, opener in _streams(ctx, data):
        try:
            with opener() as st:
                res = analysis.check_safety(f.Pickled.load(st))
            d = res.to_dict()
            js = json.dumps(d, sort_keys=True)
        except RecursionError:
            return
        except Exception as e:
            agg.violation(f"analysis-raises:delivery:{kind}",
                          f"the pickle decompiles, but delivered as {kind} the safety check / report raises "
                          f"{type(e).__name__}: {str(e)[:120]}", dict(w, delivery=kind))
            continue
        FakePickle.calls.clear()
        try:
            with opener() as st:
                loader.load(st)
            raised = None
        except UnsafeFileError as e:
            raised = e
        except RecursionError:
            return
        except Exception as e:
            agg.violation(f"loader-raises:delivery:{kind}",
                          f"delivered as {kind} the checked loader raises {type(e).__name__} instead of returning or "
                          f"UnsafeFileError: {str(e)[:120]}", dict(w, delivery=kind))
            continue
        agg.count("deliveries_checked")
        if raised is None:
            if res.severity.name != "LIKELY_SAFE":
                agg.violation(f"loader-disagrees:delivery:{kind}", "checked loader returned although the verdict is above LIKELY_SAFE",
                              dict(w, delivery=kind))
            continue
        try:
            ji = json.dumps(raised.info, sort_keys=True)
        except Exception as e:
            agg.violation(f"loader-report-not-json:delivery:{kind}",
                          f"UnsafeFileError.info is not JSON-serialisable: {str(e)[:120]}", dict(w, delivery=kind))
            continue
        if ji != js:
            agg.violation(f"loader-report-differs:delivery:{kind}", "UnsafeFileError.info differs from to_dict() for the same delivery",
                          dict(w, delivery=kind, info=ji[:300], to_dict=js[:300]))


def checked_then_edited(ctx, f, analysis, label, data, w):
    """check, edit the same object (opcodes put in front of whatever is there, also in front of PROTO / FRAME), check
    again: if the edited object still decompiles the second check returns a verdict too."""
    agg = ctx.agg
    edits = [("magic-int-front", lambda p: p.insert_magic_int(4242, index=0)), ("insert-none-pop-front", lambda p: (p.insert(0, f.Pop()), p.insert(0, f.NoneOpcode()) if hasattr(f, "NoneOpcode") else p.insert(0, f.Pickled.load(b"N.")[0]))),
             ("insert-mid", lambda p: (p.insert(len(p) // 2, f.Pickled.load(b"K\x07.")[0]), p.insert(len(p) // 2 + 1, f.Pop()))),
             ("python-first", lambda p: p.insert_python_exec("v = 1")), ("python-last", lambda p: p.insert_python("1", run_first=False)),
             ("delete-first", lambda p: p.__delitem__(0)), ("proto-front", lambda p: p.insert(0, f.Proto.create(2)))]
    for ename, edit in edits:
        try:
            p = f.Pickled.load(data)
            analysis.check_safety(p)
            edit(p)
        except RecursionError:
            return
        except Exception:
            continue
        try:
            ast.unparse(f.Pickled(list(p)).ast)          # does the edited opcode list (fresh object) still decompile?
        except RecursionError:
            return
        except Exception:
            continue
        agg.count("checked_then_edited")
        try:
            res = analysis.check_safety(p)
            json.dumps(res.to_dict())
        except RecursionError:
            return
        except Exception as e:
            agg.violation(f"analysis-raises:after-edit:{type(e).__name__}",
                          f"check, {ename}, check again on one object: the second check raises {type(e).__name__}: {str(e)[:100]} "
                          f"(the edited opcode list decompiles)", dict(w, edit=ename))
            return


def corpus(ctx):
    for cat, mods in MODULES.items():
        for m in mods:
            for a in ATTRS:
                for u in USES:
                    data = build(m, a, u)
                    if ctx.mine(data):
                        yield f"grid-{cat}-{u}", data
                    if ctx.tier == "thorough":
                        for fr in ("proto2", "proto4frame"):
                            d2 = gen.frame(data, fr)
                            if ctx.mine(d2):
                                yield f"grid-{cat}-{u}-{fr}", d2
    # opcode-level analyses (duplicate / misplaced PROTO) at every position of a benign pickle
    import pickle as _pk
    for base in (_pk.dumps(list(range(40)), 2), _pk.dumps({"k": [1, 2, (3, 4)]}, 4), b"(K\x01K\x02K\x03l."):
        ops = list(__import__("pickletools").genops(base))
        for i in range(1, len(ops)):
            for ver in (0, 2, 4, 5):
                pos = ops[i][2]
                d = base[:pos] + bytes([0x80, ver]) + base[pos:]
                if ctx.mine(d):
                    yield "proto-sweep", d
                if i % 3 == 0:
                    d2 = d[:pos] + bytes([0x80, ver]) + d[pos:]
                    if ctx.mine(d2):
                        yield "proto-sweep-twice", d2
    for name, prog in workload.directed_programs() :
        d = asm.assemble(prog)
        if ctx.mine(d):
            yield "directed-" + name, d
    for name, prog in workload.per_opcode_programs():
        d = asm.assemble(prog)
        if ctx.mine(d):
            yield "perop-" + name, d
    for label, data, _ in workload.vocab_fates(ctx):
        yield label, data
    for label, data in workload.natural(ctx, {"quick": 100, "thorough": 2500}[ctx.tier]):
        yield label, data
    for prog in asm.enumerate_programs({"quick": 3, "thorough": 4}[ctx.tier]):
        d = asm.assemble(prog)
        if ctx.mine(d):
            yield "exh", d
    for label, prog, data in workload.random_long(ctx, {"quick": 3000, "thorough": 80000}[ctx.tier], max_len=30):
        yield label, data


def nesting_sweep(ctx, f, analysis, loader, UnsafeFileError):
    """Deeply nested literals as call arguments.  Whatever decompiles with a tenth of the stack to spare must be
    analysable with the whole stack: the analysis may cost a constant number of extra frames, not a share per level."""
    import sys
    agg = ctx.agg
    limit = sys.getrecursionlimit()

    def nested(shape, d):
        if shape == "tuple1":
            return b"K\x01" + b"\x85" * d
        if shape == "tuple2":
            return b"K\x01" + b"K\x02\x86" * d
        if shape == "list":
            return b"]" * d + b"K\x01a" + b"a" * (d - 1)
        if shape == "dict":
            return b"}K\x00" * d + b"K\x01" + b"s" * d
        raise ValueError(shape)
    idx = 0
    for shape in ("tuple1", "tuple2", "list", "dict"):
        for d in range(40, 900, 10):
            idx += 1
            if idx % ctx.nshards != ctx.shard:
                continue
            for head in (b"cvp_sink\nhit\n(", b"ccollections\nOrderedDict\n("):
                data = head + nested(shape, d) + b"tR."
                sys.setrecursionlimit(int(limit * 0.9))
                try:
                    try:
                        ast.unparse(f.Pickled.load(data).ast)
                        fits = True
                    except RecursionError:
                        fits = False
                    except Exception:
                        fits = None
                finally:
                    sys.setrecursionlimit(limit)
                if not fits:
                    continue
                agg.case(h(data), True, {"label": f"nesting-{shape}-{d}"})
                agg.count("nesting_cases_within_budget")
                w = {"label": f"nesting-{shape}-{d}", "hex": data.hex()[:400], "depth": d, "shape": shape}
                try:
                    res = analysis.check_safety(f.Pickled.load(data))
                    json.dumps(res.to_dict())
                except RecursionError:
                    agg.violation("analysis-raises:RecursionError:within-decompile-budget",
                                  f"{shape} nested {d} deep decompiles with a tenth of the stack to spare, but the safety check "
                                  f"exhausts the whole stack", w)
                    return
                except Exception as e:
                    agg.violation(f"analysis-raises:{type(e).__name__}", f"nested literal: {str(e)[:100]}", w)
                    return
                try:
                    loader.load(io.BytesIO(data))
                except UnsafeFileError:
                    pass
                except RecursionError:
                    agg.violation("loader-raises:RecursionError:within-decompile-budget",
                                  f"{shape} nested {d} deep: the checked loader exhausts the stack", w)
                    return
                except Exception:
                    pass


def setup():
    import fickling  # noqa: F401  (registers every analysis, as any real use does)
    import fickling.fickle as f
    import fickling.analysis as analysis
    import fickling.loader as loader
    from fickling.exception import UnsafeFileError
    loader.pickle = FakePickle
    return f, analysis, loader, UnsafeFileError


def run_shard(ctx):
    f, analysis, loader, U = setup()
    ctx.agg.notes.append({"registered_analyses": [type(a).__name__ for a in analysis.Analysis.ALL]})
    nesting_sweep(ctx, f, analysis, loader, U)
    for label, data in corpus(ctx):
        check(ctx, f, analysis, loader, U, label, data)


def replay(ctx, payload):
    f, analysis, loader, U = setup()
    c = payload["case"]
    check(ctx, f, analysis, loader, U, c.get("label", "replay"), bytes.fromhex(c["hex"]))

"""C12 - Hook lifecycle: protection holds while armed and is restored exactly on exit."""
import io
import itertools
import pickle
import _pickle

from vp import asm
from vp.core import h

ORIG = (pickle.load, pickle.loads, _pickle.load, _pickle.loads)     # before fickling is imported

CONFIG = dict(
    level="exploration",
    rule=("operation histories over {arm global check, activate ML env, activate ML env with additions, remove "
          "hooks (remove_hook and its documented twin deactivate_safe_ml_environment), enter context, leave context normally, leave context by exception} with contexts nested up "
          "to depth 3, bounded-exhaustive up to the tier's length plus seeded random histories of length 40; "
          "after *every* step all four entry points (pickle.load, pickle.loads, _pickle.load, _pickle.loads) "
          "are probed with a flagged but harmless pickle (vp_sink.hit; also behind a header, behind bytes that are no opcode "
          "and with trailing data) and the identity of the four bindings "
          "is recorded.  Oracle: an explicit lifecycle model with a stack of saved states - a path the model "
          "says is protected must raise and leave the sink log empty; after leaving a context the identity "
          "tuple and the behaviour tuple equal those recorded at entry; after remove with no context open the "
          "four bindings are the originals captured before fickling was imported.  Separately, under each arming, an "
          "accepted benign pickle is followed by its byte-for-byte twin that differs only in one module name (10 to "
          "20000 attributes, protocols 2 and 4).  A case is one distinct "
          "history; non-trivial = it contains a context entry or >= 2 arming operations."),
    assumptions=[
        "documented protection: global check and context manager protect pickle.load; the ML environment protects all four",
        "stricter-than-documented protection is not reported (only protected => must not execute is asserted from the model)",
        "contexts are used as `with fickling.check_safety():` (created at entry)",
    ],
    min_nontrivial={"quick": 3000, "thorough": 100000},
    nshards={"quick": 16, "thorough": 16},
    timeout={"quick": 900, "thorough": 7200},
    required_counters=("steps", "probes", "twin_probes", "context_exits_compared", "removals_checked"),
)

OPS = ["arm", "ml", "ml+", "ml-bad", "remove", "deact", "enter", "enter_shared", "leave", "leave_exc", "leave_refusal"]
# additions of a type the API does not expect (a bare string, bytes entries, pairs, a number, None entries, no dot):
# whatever the environment then does with a load, it must not execute the flagged pickle
BAD_ADDITIONS = ["collections.Counter", [b"collections.Counter"], [("collections", "Counter")], 5, [None], ["nodot"],
                 [b"vp_sink.hit"], "vp_sink.hit", [("vp_sink", "hit")]]     # deact: the documented twin of remove
FLAGGED = b"cvp_sink\nhit\n(S'probe'\ntR."
ADDITION_PROBE = b"ccollections\nCounter\n)R."      # allowed exactly while the 'ml+' additions are in force
HOSTILE = (FLAGGED + b"trailing", b"\x00" + FLAGGED, b"\n" + FLAGGED, b"\xff" + FLAGGED, b" " + FLAGGED,
           b"\x00\x00" + FLAGGED)
NAMES = ("pickle.load", "pickle.loads", "_pickle.load", "_pickle.loads")


def valid(hist):
    depth = 0
    for op in hist:
        if op in ("enter", "enter_shared"):
            depth += 1
            if depth > 3:
                return False
        elif op in ("leave", "leave_exc", "leave_refusal"):
            if depth == 0:
                return False
            depth -= 1
    return True


def histories(ctx):
    L = {"quick": 5, "thorough": 6}[ctx.tier]
    idx = 0
    for n in range(1, L + 1):
        for hist in itertools.product(OPS, repeat=n):
            if not valid(hist):
                continue
            idx += 1
            if idx % ctx.nshards == ctx.shard:
                yield list(hist)
    nr = {"quick": 300, "thorough": 6000}[ctx.tier]
    for i in range(nr):
        if i % ctx.nshards != ctx.shard:
            continue
        rng = asm.rng_for(ctx.seed, f"c12h{i}")
        hist, depth = [], 0
        for _ in range(40):
            op = rng.choice(OPS)
            if op in ("enter", "enter_shared") and depth >= 3:
                continue
            if op in ("leave", "leave_exc", "leave_refusal"):
                if depth == 0:
                    continue
                depth -= 1
            if op in ("enter", "enter_shared"):
                depth += 1
            hist.append(op)
        yield hist


def bindings():
    return (pickle.load, pickle.loads, _pickle.load, _pickle.loads)


def probe_all(U, files=False):
    """Behaviour of the four paths on the flagged pickle: 'ran' / 'blocked' / 'other:<exc>'."""
    import vp_sink
    out = []
    for i, fn in enumerate(bindings()):
        del vp_sink.LOG[:]
        try:
            if i % 2 == 0:
                fn(io.BytesIO(FLAGGED))
            else:
                fn(FLAGGED)
            res = "ran" if vp_sink.LOG else "returned-without-running"
        except U:
            res = "blocked" if not vp_sink.LOG else "ran-then-blocked"
        except Exception as e:
            chain, x = [], e
            while x is not None and len(chain) < 5:
                chain.append(x)
                x = x.__cause__ or x.__context__
            if any(isinstance(c, U) for c in chain) and not vp_sink.LOG:
                res = "blocked"
            else:
                res = f"other:{type(e).__name__}" + (":ran" if vp_sink.LOG else "")
        out.append(res)
    # second probe: a harmless global that only the 'ml+' activation allows; distinguishes which
    # additions are in force where the function objects themselves are identical
    for i, fn in enumerate(bindings()):
        try:
            if i % 2 == 0:
                fn(io.BytesIO(ADDITION_PROBE))
            else:
                fn(ADDITION_PROBE)
            out.append("add:allowed")
        except U:
            out.append("add:blocked")
        except Exception as e:
            chain, x = [], e
            while x is not None and len(chain) < 5:
                chain.append(x)
                x = x.__cause__ or x.__context__
            out.append("add:blocked" if any(isinstance(c, U) for c in chain) else f"add:other:{type(e).__name__}")
    # third probe: hostile deliveries of the flagged pickle (a byte that is no opcode in front of it, a stream
    # positioned behind a header, trailing data); only "did the sink run" is recorded
    for i, fn in enumerate(bindings()):
        ran = []
        for di, blob in enumerate(HOSTILE):
            del vp_sink.LOG[:]
            try:
                if i % 2 == 0:
                    st = io.BytesIO(b"HDR" + blob if di == 0 else blob)
                    if di == 0:
                        st.seek(3)
                    fn(st)
                else:
                    fn(blob)
            except BaseException:
                pass
            if vp_sink.LOG:
                ran.append(di)
        if i % 2 == 0 and files:
            # a real file opened by a relative name; then the working directory moves into the interpreter's own
            # library directories (where a loader might think it is looking at the installation's data files)
            import os
            import sysconfig
            here = os.getcwd()
            with open("c12_probe.pkl", "wb") as fh:
                fh.write(FLAGGED)
            for di, target in enumerate((sysconfig.get_paths()["purelib"], sysconfig.get_paths()["stdlib"], os.path.dirname(os.__file__), "/")):
                del vp_sink.LOG[:]
                st = open("c12_probe.pkl", "rb")
                try:
                    os.chdir(target)
                    fn(st)
                except BaseException:
                    pass
                finally:
                    os.chdir(here)
                    st.close()
                if vp_sink.LOG:
                    ran.append(f"relative-name-then-chdir-{di}")
            os.remove("c12_probe.pkl")
        out.append("hostile-ran:" + ",".join(map(str, ran)) if ran else "hostile:none-ran")
    del vp_sink.LOG[:]
    return tuple(out)


def run_history(ctx, mods, hist):
    fickling, hook, loader, U = mods
    agg = ctx.agg
    key = h(",".join(hist).encode())
    nontrivial = "enter" in hist or "enter_shared" in hist or sum(1 for o in hist if o in ("arm", "ml", "ml+", "ml-bad")) >= 2
    # model: per-binding protection, stack of saved (model, identities, behaviour)
    model = ["orig"] * 4
    stack = []
    cms = []
    steps = []
    w = {"history": hist}
    shared_cm = fickling.check_safety()
    try:
        for op in hist:
            if op == "arm":
                fickling.always_check_safety()
                model[0] = "checked"
            elif op == "ml":
                hook.activate_safe_ml_environment()
                model = ["ml"] * 4
            elif op == "ml+":
                hook.activate_safe_ml_environment(also_allow=["collections.Counter"])
                model = ["ml+"] * 4
            elif op == "ml-bad":
                bad = BAD_ADDITIONS[(len(steps) + len(hist) + int(key[:2], 16)) % len(BAD_ADDITIONS)]
                try:
                    hook.activate_safe_ml_environment(also_allow=bad)
                    model = ["ml-bad"] * 4
                except Exception:
                    agg.count("bad_additions_refused_at_activation")
            elif op in ("remove", "deact"):
                if op == "remove":
                    hook.remove_hook()
                else:
                    hook.deactivate_safe_ml_environment()
                model = ["orig"] * 4
            elif op in ("enter", "enter_shared"):
                stack.append((list(model), bindings(), probe_all(U)))
                # "enter_shared": one context-manager object, created before anything else happened in this history,
                # entered again and again (also while it is already entered)
                cm = fickling.check_safety() if op == "enter" else shared_cm
                cm.__enter__()
                cms.append(cm)
                model[0] = "checked"
            elif op in ("leave", "leave_exc", "leave_refusal"):
                cm = cms.pop()
                if op == "leave":
                    cm.__exit__(None, None, None)
                elif op == "leave_refusal":
                    # the block is left by the very exception a refused load raised (whichever binding refuses first)
                    import vp_sink
                    refusal = None
                    for i, fn in enumerate(bindings()):
                        try:
                            fn(io.BytesIO(FLAGGED)) if i % 2 == 0 else fn(FLAGGED)
                        except BaseException as e:
                            refusal = refusal or e
                    del vp_sink.LOG[:]
                    if refusal is None:
                        cm.__exit__(None, None, None)
                    else:
                        try:
                            if cm.__exit__(type(refusal), refusal, refusal.__traceback__):
                                agg.violation("context-swallows-exception", "the safety context suppressed the refusal raised in its body", w)
                        except BaseException as e2:
                            agg.violation("context-exit-raises",
                                          f"leaving the context by a refusal ({type(refusal).__name__}) made __exit__ raise {type(e2).__name__}: "
                                          f"{str(e2)[:80]}", dict(w, steps=steps + [op]))
                            return
                else:
                    try:
                        raise ValueError("vp: leaving the context by exception")
                    except ValueError as e:
                        swallowed = cm.__exit__(type(e), e, e.__traceback__)
                        if swallowed:
                            agg.violation("context-swallows-exception", "the safety context suppressed an exception raised in its body", w)
                saved_model, saved_ids, saved_beh = stack.pop()
                model = saved_model
                now_ids, now_beh = bindings(), probe_all(U)
                agg.count("context_exits_compared")
                if now_ids != saved_ids:
                    diff = [NAMES[i] for i in range(4) if now_ids[i] is not saved_ids[i]]
                    agg.violation("context-exit-bindings",
                                  f"after leaving a context {diff} are not the functions that were bound on entry",
                                  dict(w, steps=steps + [op], differing=diff))
                    return
                if now_beh != saved_beh:
                    agg.violation("context-exit-protection",
                                  f"protection after leaving a context {now_beh} differs from protection on entry {saved_beh}",
                                  dict(w, steps=steps + [op]))
                    return
            steps.append(op)
            agg.count("steps")
            beh = probe_all(U, files=(len(steps) == len(hist)))
            agg.count("probes", 8 + 4 * len(HOSTILE))
            agg.hist("behaviours", ",".join(beh))
            for i in range(4):
                if model[i] in ("ml", "ml+") and beh[4 + i] != ("add:allowed" if model[i] == "ml+" else "add:blocked"):
                    agg.violation(f"wrong-additions-in-force:{NAMES[i]}",
                                  f"model says {NAMES[i]} runs the ML environment {'with' if model[i] == 'ml+' else 'without'} "
                                  f"additions, but the addition probe is {beh[4 + i]}",
                                  dict(w, steps=list(steps), behaviour=beh, model=list(model)))
                    return
            for i in range(4):
                if model[i] != "orig" and beh[8 + i] != "hostile:none-ran":
                    agg.violation(f"unprotected-while-armed:{NAMES[i]}:hostile-delivery",
                                  f"model says {NAMES[i]} is protected ({model[i]}) but a flagged pickle behind a "
                                  f"non-opcode byte / header / with trailing data executed ({beh[8 + i]})",
                                  dict(w, steps=list(steps), behaviour=beh, model=list(model)))
                    return
            for i in range(4):
                if model[i] == "ml-bad":
                    if "ran" in beh[i] or beh[i].startswith("returned"):
                        agg.violation(f"unprotected-while-armed:{NAMES[i]}:bad-additions",
                                      f"ML environment activated with additions of an unexpected type: the flagged probe {beh[i]}",
                                      dict(w, steps=list(steps), behaviour=beh, model=list(model)))
                        return
                    continue
                if model[i] != "orig" and beh[i] != "blocked":
                    agg.violation(f"unprotected-while-armed:{NAMES[i]}",
                                  f"model says {NAMES[i]} is protected ({model[i]}) but the flagged probe {beh[i]}",
                                  dict(w, steps=list(steps), behaviour=beh, model=list(model)))
                    return
            if op in ("remove", "deact") and not cms:
                agg.count("removals_checked")
                now = bindings()
                if any(now[i] is not ORIG[i] for i in range(4)):
                    diff = [NAMES[i] for i in range(4) if now[i] is not ORIG[i]]
                    agg.violation("remove-does-not-restore", f"after remove_hook with no context open {diff} are not the original functions",
                                  dict(w, steps=list(steps), differing=diff))
                    return
    finally:
        # reset the process-global state for the next history and make sure we could
        while cms:
            try:
                cms.pop().__exit__(None, None, None)
            except Exception:
                pass
        pickle.load, pickle.loads, _pickle.load, _pickle.loads = ORIG
        agg.case(key, nontrivial, {"history": hist})


def setup():
    import fickling
    import fickling.hook as hook
    import fickling.loader as loader
    from fickling.exception import UnsafeFileError
    return fickling, hook, loader, UnsafeFileError


def run_shard(ctx):
    mods = setup()
    if bindings() != ORIG:
        ctx.agg.violation("import-rebinds", "importing fickling alone rebinds pickle functions", {})
    for hist in histories(ctx):
        run_history(ctx, mods, hist)
    for d in (["enter", "ml", "leave"], ["ml", "enter", "remove", "leave"], ["arm", "enter", "enter", "leave_exc", "leave", "remove"]):
        run_history(ctx, mods, d)
    twin_histories(ctx, mods)


def twin_histories(ctx, mods):
    """A benign pickle that is accepted, then its byte-for-byte twin that differs only in the module a class
    comes from (argparse.Namespace / vp_other.Namespace) - small and tens of thousands of opcodes, protocols
    2 and 4: whatever the first load left behind (a remembered verdict ...) must not let the second one run."""
    import argparse
    import vp_sink
    fickling, hook, loader, U = mods
    agg = ctx.agg
    sizes = {"quick": (10, 1200, 6000), "thorough": (10, 700, 1200, 6000, 20000)}[ctx.tier]
    idx = 0
    for n in sizes:
        for proto in (2, 4):
            benign = pickle.dumps(argparse.Namespace(**{f"k{i}": float(i) for i in range(n)}), proto)
            flagged = benign.replace(b"argparse", b"vp_other")
            if flagged == benign or len(flagged) != len(benign):
                agg.inconclusive.append("harness: twin construction failed")
                continue
            for arming in ("arm", "context", "nested-context", "ml", "arm+context"):
                idx += 1
                if idx % ctx.nshards != ctx.shard:
                    continue
                key = h(f"twin|{n}|{proto}|{arming}".encode())
                agg.case(key, True, {"history": ["twin", arming], "attrs": n, "protocol": proto})
                cms = []
                w = {"history": ["twin", arming, f"attrs={n}", f"protocol={proto}"]}
                try:
                    if arming in ("arm", "arm+context"):
                        fickling.always_check_safety()
                    if arming == "ml":
                        hook.activate_safe_ml_environment()
                    for _ in range({"context": 1, "nested-context": 2, "arm+context": 1}.get(arming, 0)):
                        cm = fickling.check_safety()
                        cm.__enter__()
                        cms.append(cm)
                    for rnd in range(2):
                        del vp_sink.LOG[:]
                        try:
                            pickle.load(io.BytesIO(benign))
                            agg.count("twin_benign_accepted")
                        except Exception:
                            agg.count("twin_benign_refused")
                        del vp_sink.LOG[:]
                        try:
                            pickle.load(io.BytesIO(flagged))
                            res = "returned"
                        except U:
                            res = "blocked"
                        except Exception as e:
                            chain, x = [], e
                            while x is not None and len(chain) < 5:
                                chain.append(x)
                                x = x.__cause__ or x.__context__
                            res = "blocked" if any(isinstance(c, U) for c in chain) else f"other:{type(e).__name__}"
                        agg.count("twin_probes")
                        if vp_sink.LOG or res == "returned":
                            agg.violation("unprotected-while-armed:pickle.load:after-benign-twin",
                                          f"armed ({arming}): after a benign pickle was accepted, its twin that differs only in the "
                                          f"module of one class ({n} attributes, protocol {proto}) {res} and ran {vp_sink.LOG[:1]}",
                                          dict(w, round=rnd))
                            break
                finally:
                    while cms:
                        try:
                            cms.pop().__exit__(None, None, None)
                        except Exception:
                            pass
                    hook.remove_hook()
                    pickle.load, pickle.loads, _pickle.load, _pickle.loads = ORIG
                    del vp_sink.LOG[:]


def replay(ctx, payload):
    hist = payload["case"]["history"]
    if hist and hist[0] == "twin":
        class _One:
            tier, seed, shard, nshards, agg = ctx.tier, ctx.seed, 0, 1, ctx.agg
        twin_histories(_One, setup())
        return
    run_history(ctx, setup(), hist)

"""Thread faces shared by the checks: the same question asked from a worker thread, and the same
questions asked by several threads at once with yield injection inside the library's own frames.

The oracle is always the single-threaded answer computed by the caller; this module only produces
the executions (and counts what it injected, so that a run that interleaved nothing is visible)."""
import os
import random
import sys
import threading
import time

_TOOLS = (5, 2, 0)      # 1 = coverage, 3/4 = the effect tripwire of vp.effects
_LIB = os.path.join(os.environ.get("VERIF_REPO", "/repo"), "fickling") + os.sep


def in_worker(fn, *a, **k):
    """Run fn(*a, **k) in a fresh non-main thread.  -> ("ok", value) | ("raise", exception)"""
    box = []

    def body():
        try:
            box.append(("ok", fn(*a, **k)))
        except BaseException as e:  # noqa: BLE001 - reported, not swallowed
            box.append(("raise", e))
    t = threading.Thread(target=body, name="vp-worker", daemon=True)
    t.start()
    t.join(600)
    if not box:
        return ("raise", TimeoutError("worker thread did not finish in 600 s"))
    return box[0]


class Yields:
    """sys.monitoring LINE callback that yields the GIL at random statement starts inside /repo/fickling.
    Only the threads started by race() are disturbed (thread idents registered)."""

    def __init__(self, seed, p=0.25):
        self.rng = random.Random(seed)
        self.p = p
        self.injected = 0
        self.lines = 0
        self.idents = set()
        self.on = False

    def _line(self, code, line):
        if not code.co_filename.startswith(_LIB):
            return sys.monitoring.DISABLE
        if threading.get_ident() in self.idents:
            self.lines += 1
            if self.rng.random() < self.p:
                self.injected += 1
                time.sleep(0.00002)

    def __enter__(self):
        m = sys.monitoring
        for t in _TOOLS:
            try:
                m.use_tool_id(t, "vp-yield")
            except ValueError:
                continue
            self.tool = t
            m.register_callback(t, m.events.LINE, self._line)
            m.set_events(t, m.events.LINE)
            self.on = True
            break
        return self

    def __exit__(self, *exc):
        if self.on:
            m = sys.monitoring
            m.set_events(self.tool, 0)
            m.register_callback(self.tool, m.events.LINE, None)
            m.free_tool_id(self.tool)
            m.restart_events()
            self.on = False
        return False


def race(fns, seed=0, p=0.25, timeout=300):
    """Start every fn at a barrier in its own thread, with yields injected in library frames.
    -> (results, stats)   results[i] = ("ok", value) | ("raise", exception) | ("hung", None)"""
    n = len(fns)
    res = [("hung", None)] * n
    bar = threading.Barrier(n)
    y = Yields(seed, p)

    def body(i):
        y.idents.add(threading.get_ident())
        try:
            bar.wait(30)
            res[i] = ("ok", fns[i]())
        except BaseException as e:  # noqa: BLE001
            res[i] = ("raise", e)
    old = sys.getswitchinterval()
    sys.setswitchinterval(1e-5)
    try:
        with y:
            ts = [threading.Thread(target=body, args=(i,), name=f"vp-race-{i}", daemon=True) for i in range(n)]
            for t in ts:
                t.start()
            end = time.time() + timeout
            for t in ts:
                t.join(max(0.1, end - time.time()))
    finally:
        sys.setswitchinterval(old)
    return res, {"threads": n, "yields_injected": y.injected, "library_lines_seen": y.lines}

"""C08 - Injection adds exactly one call and preserves the original pickle's behaviour."""
import io
import os
import pickle
import pickletools
import _pickle

from vp import asm, gen, monitor, refvm, workload
from vp.core import h

ORIG_LOADS = _pickle.loads
ORIG_UNPICKLER = _pickle.Unpickler

CONFIG = dict(
    level="exploration",
    rule=("base pickles (generated values incl. instances whose unpickling has observable effects, shared "
          "references, >255 memo entries, protocols 0-5 framed and unframed, C and Python picklers, and "
          "assembler bases with sparse memo keys incl. the fixed keys 321987 / 1 / 2 the injector uses) x "
          "every injection helper and flag combination (insert_python first/last x keep/replace with "
          "callee eval / exec / vp_sink.hit and 0-3 constant args incl. lists and dicts; append_python "
          "pop/no-pop; insert_magic_int at several indexes; insert_function_call_on_unpickled_object "
          "plain/compiled with constant args; bases incl. protocol 4/5 pickles split over several FRAMEs), also as histories in which a helper call that is refused (unsupported "
          "argument, definition that does not compile) precedes the valid injection on the same object.  The rewritten bytes are loaded by the original C "
          "unpickler from bytes and from a read-only stream (and, for modes that do not depend on exec scoping, by the "
          "pure-Python one) while the sink log and pickle.find_class audit events are recorded; the "
          "reference VM gives the stack depth at STOP.  A case is one distinct (base bytes, mode); "
          "non-trivial = the base has at least one effect, memo entry or container."),
    assumptions=[
        "every base and every injected payload is harmless when really unpickled (sink calls only)",
        "an exception while *building* the injection is a refusal, not a violation",
        "the marker-integer mode injects no call: only behaviour preservation, stack, STOP and marker are asserted",
        "insert_function_call_on_unpickled_object is loaded by the C unpickler only (exec scoping of the payload)",
    ],
    min_nontrivial={"quick": 1500, "thorough": 30000},
    nshards={"quick": 8, "thorough": 16},
    timeout={"quick": 900, "thorough": 5400},
    required_counters=("copied_base_injections", "refused_first_attempts", "rewritten_loads", "effect_logs_compared", "find_class_sequences_compared", "stack_at_stop_checked"),
)

INJ_SRC = "__import__('vp_sink').hit('INJ', 7)"
# the injected definition carries an annotation whose evaluation leaves a mark (annotations are evaluated when the `def`
# statement runs - unless the definition was compiled with postponed annotations): the recorded call tells which
FN_DEF = ("def vpfn(obj: __import__('vp_sink').__dict__.setdefault('ANN', []).append(1), *extra):\n    import vp_sink\n"
          "    vp_sink.LOG.append(('fn', extra, {'ann': len(vp_sink.__dict__.pop('ANN', []))}))\n    return obj\n")

MODES = []
for _first in (True, False):
    for _repl in (False, True):
        MODES.append(("insert_python", {"run_first": _first, "replace": _repl, "callee": "eval"}))
        MODES.append(("insert_python", {"run_first": _first, "replace": _repl, "callee": "hit"}))
        MODES.append(("insert_python", {"run_first": _first, "replace": _repl, "callee": "hit-structured"}))
MODES.append(("insert_python", {"run_first": True, "replace": False, "callee": "exec"}))
MODES.append(("insert_python", {"run_first": True, "replace": False, "callee": "hit-twins"}))
MODES.append(("insert_python", {"run_first": False, "replace": True, "callee": "hit-twins"}))
MODES.append(("insert_python", {"run_first": False, "replace": False, "callee": "hit-noargs"}))
for _first in (True, False):
    for _repl in (False, True):
        MODES.append(("cli", {"run_first": _first, "replace": _repl}))
for _pop in (True, False):
    MODES.append(("append_python", {"pop": _pop, "callee": "eval"}))
    MODES.append(("append_python", {"pop": _pop, "callee": "hit"}))
for _idx in (-1, 0, 1, 2):
    MODES.append(("insert_magic_int", {"index": _idx, "magic": 0x4242}))
for _comp in (False, True):
    MODES.append(("insert_fn", {"compile": _comp, "args": None}))
    MODES.append(("insert_fn", {"compile": _comp, "args": [5, "s"]}))


def asm_bases():
    A = asm
    g = A.GLOBAL
    hit = (g("vp_sink", "hit"), A.MARK, A.SBU("base"), A.TUPLE, A.REDUCE)
    return [
        ("asm-key321987", (A.EMPTY_LIST, A.LONG_BINPUT(321987), A.BININT1(1), A.APPEND, A.LONG_BINGET(321987), A.TUPLE2, A.STOP)),
        ("asm-key1-2", (A.NONE, A.PUT(1), A.POP, A.EMPTY_LIST, A.PUT(2), A.GET(1), A.APPEND, A.GET(2), A.TUPLE2, A.STOP)),
        ("asm-sparse", (A.PROTO(2), A.EMPTY_DICT, A.BINPUT(200), A.SBU("k"), A.EMPTY_LIST, A.LONG_BINPUT(70000), A.SETITEM, A.STOP)),
        ("asm-sparse-key0-missing", (A.EMPTY_LIST, A.BINPUT(5), A.BINGET(5), A.TUPLE2, A.STOP)),
        ("asm-memoize-after-put", (A.PROTO(4), A.EMPTY_LIST, A.BINPUT(1), A.EMPTY_LIST, A.MEMOIZE, A.TUPLE2, A.STOP)),
        # memo slots bound more than once (hand-written pickles, pickles rewritten twice by a tool that parks a value
        # at a fixed key): the number of memo writes is not the number of slots in use
        ("asm-slot-rebound", (A.EMPTY_LIST, A.BINPUT(0), A.EMPTY_LIST, A.BINPUT(0), A.BININT1(7), A.APPEND, A.APPEND, A.STOP)),
        ("asm-slot-rebound-3x", (A.PROTO(2), A.EMPTY_LIST, A.BINPUT(1), A.POP, A.EMPTY_DICT, A.BINPUT(1), A.POP, A.EMPTY_LIST, A.BINPUT(1),
                                 A.BININT1(5), A.APPEND, A.STOP)),
        ("asm-slot-rebound-memoize", (A.PROTO(4), A.EMPTY_LIST, A.MEMOIZE, A.EMPTY_LIST, A.BINPUT(0), A.BININT1(7), A.APPEND, A.APPEND, A.STOP)),
        ("asm-effect", hit + (A.STOP,)),
        ("asm-effect-twice", hit + (A.POP,) + hit + (A.STOP,)),
        ("asm-effect-memo", hit + (A.BINPUT(1), A.BINGET(1), A.TUPLE2, A.STOP)),
        ("asm-mark-result", (A.MARK, A.BININT1(1), A.BININT1(2), A.LIST, A.STOP)),
        ("asm-proto-frame", (A.PROTO(4), asm.Sym("FRAME", b"\x95" + (3).to_bytes(8, "little"), "nop"), A.NONE, A.MEMOIZE, A.STOP)),
        ("asm-dup", (A.EMPTY_LIST, A.DUP, A.POP, A.STOP)),
        ("asm-inst", (A.MARK, A.BININT1(3), A.INST("vp_sink", "K"), A.STOP)),
        ("asm-obj-build", (A.MARK, g("vp_sink", "K"), A.OBJ, A.EMPTY_DICT, A.SBU("a"), A.BININT1(1), A.SETITEM, A.BUILD, A.STOP)),
    ]


def bases(ctx):
    import vp_sink
    out = []
    for name, prog in asm_bases():
        out.append((name, asm.assemble(prog)))
    big = [[i] for i in range(300)]
    k = vp_sink.K()
    k.a = [1, 2]
    d = {"a": 1}
    special = [big + big[:3], [vp_sink.KReduce(1), vp_sink.KReduce(2)], vp_sink.KSetState(), [k, k], [d, d],
               {"x": vp_sink.KReduceState(4)}, [vp_sink.KNewArgs(1, "two"), vp_sink.KNewArgsEx(1, kw=2)],
               vp_sink.KList([1]), vp_sink.KDict({"q": 1}), [vp_sink.KSlots(1, 2)], (1, "a", b"b", 2.5, None, True),
               [{1, 2}, frozenset({3})], "just text", 12345678901234567890]
    # protocol >= 4 pickles that the pickler splits over several FRAMEs (and a large string written outside frames)
    meta = {("key_%05d" % i) * 4: i for i in range(4000)}
    for proto in (4, 5):
        out.append((f"multiframe-p{proto}", pickle.dumps({"meta": meta, "k": [vp_sink.KReduce(1)]}, proto)))
        out.append((f"multiframe-large-str-p{proto}",
                    pickle.dumps([vp_sink.KReduce(1), meta, "x" * 70000, vp_sink.KReduce(2), sorted(meta)], proto)))
    for proto in (4, 5):
        # a large object written outside the frames and followed by only a few opcodes
        out.append((f"blob-last-dict-p{proto}", pickle.dumps({"step": 1, "weights": b"x" * 100000}, proto)))
        out.append((f"blob-last-list-p{proto}", pickle.dumps([vp_sink.KReduce(3), "y" * 70000], proto)))
        out.append((f"blob-only-p{proto}", pickle.dumps((b"w" * 65536,), proto)))
    nval = {"quick": 30, "thorough": 700}[ctx.tier]
    vals = special + [v for v in workload.values(ctx.seed, nval)][len(gen.directed_values()):]
    for v in vals:
        for label, data in gen.natural_pickles(v):
            out.append(("nat-" + label, data))
        for proto in (0, 2):
            try:
                out.append(("natpy-p%d" % proto, gen.py_pickle(v, proto)))
            except Exception:
                pass
    return out


def gate(data, rewritten=False):
    """Harness interlock.  Bases must pass C02's strict gate; rewritten pickles may additionally
    resolve eval/exec/marshal.loads, but only applied to the fixed harmless payloads of this file."""
    from vp.props import c02
    if not rewritten:
        return c02.load_for_real_ok(data)
    import marshal
    # any compilation of the harness's own harmless definition may be run (flags / optimisation level are the tree's choice;
    # what the choice does to the definition's meaning is judged on the effects of the load)
    import __future__
    expected_codes = set()
    for fl in (0, __future__.annotations.compiler_flag):
        for opt_ in (0, 1, 2):
            for fn_ in ("<string>", "<fickling>", "<pickle>"):
                expected_codes.add(compile(FN_DEF, fn_, "exec", flags=fl, dont_inherit=True, optimize=opt_))
    ok_src = {repr(INJ_SRC), repr(FN_DEF), repr("vpfn")} | {repr(x) for x in c02.HARMLESS_EVAL_SRC}
    vm, _err = refvm.run_ref(data)
    for ev in vm.log.events:
        if ev[0] == "import":
            if (ev[1], ev[2]) in (("builtins", "eval"), ("builtins", "exec"), ("marshal", "loads")):
                continue
            if (ev[1], ev[2]) not in c02.ALLOWED_NORM and (ev[1], None) not in c02.ALLOWED_NORM:
                return False
        elif ev[0] == "call" and ev[1][0] == "glob" and (ev[1][1], ev[1][2]) in (
                ("builtins", "eval"), ("builtins", "exec"), ("marshal", "loads")):
            args = ev[2][1]
            if len(args) != 1:
                return False
            a = args[0]
            if a[0] == "k" and a[1] == "str" and a[2] in ok_src:
                continue
            if a[0] == "k" and a[1] == "bytes" and ev[1][2] == "loads":
                try:
                    if marshal.loads(eval(a[2])) in expected_codes:      # a[2] is repr(bytes) made by the harness
                        continue
                except Exception:
                    pass
                return False
            if a[0] == "obj" and a[1][0] == "res" and a[1][1][1] == ("glob", "marshal", "loads"):
                continue
            return False
    return True


class _ReadOnly:
    """read/readline only (no peek, no readinto): the C unpickler prefetches whole frames from it"""

    def __init__(self, data):
        self._b = io.BytesIO(data)

    def read(self, n=-1):
        return self._b.read(n)

    def readline(self):
        return self._b.readline()


def real_load(data, python=False):
    """Load with the original unpickler; returns (outcome, sink log, find_class sequence)."""
    import vp_sink
    del vp_sink.LOG[:]
    with monitor.Recording() as rec:
        try:
            if python in (True, "py"):
                val = pickle._Unpickler(io.BytesIO(data)).load()
            elif python == "c-stream":
                val = ORIG_UNPICKLER(_ReadOnly(data)).load()     # how torch.load and pickle.load(file) read
            else:
                val = ORIG_LOADS(data)
            out = ("ret", val)
        except BaseException as e:
            out = ("exc", e)
    log = list(vp_sink.LOG)
    del vp_sink.LOG[:]
    finds = [s for n, s in rec.events if n == "pickle.find_class"]
    return out, log, finds


def inject(f, p, mode, opt):
    """Apply the helper; returns (injected_event or None, injected_global or None, where)"""
    if mode == "insert_python":
        callee = opt["callee"]
        kw = dict(run_first=opt["run_first"], use_output_as_unpickle_result=opt["replace"])
        where = "first" if opt["run_first"] else "last"
        if callee == "eval":
            p.insert_python(INJ_SRC, **kw)
            return ("hit", ("INJ", 7), {}), ("builtins", "eval"), where
        if callee == "exec":
            p.insert_python_exec(INJ_SRC, **kw)
            return ("hit", ("INJ", 7), {}), ("builtins", "exec"), where
        if callee == "hit":
            p.insert_python("INJ", 7, "txt", module="vp_sink", attr="hit", **kw)
            return ("hit", ("INJ", 7, "txt"), {}), ("vp_sink", "hit"), where
        if callee == "hit-structured":
            p.insert_python("INJ", [1, "two", [3]], {"k": [4, 5], "e": {}}, module="vp_sink", attr="hit", **kw)
            return ("hit", ("INJ", [1, "two", [3]], {"k": [4, 5], "e": {}}), {}), ("vp_sink", "hit"), where
        if callee == "hit-twins":
            # numbers that compare equal yet are different values / kinds, next to each other
            args = (1, 1.0, 0, 0.0, -0.0, [2, 2.0, 2], {"a": 3, "b": 3.0, "c": -0.0}, 2 ** 31, 2147483648.0, 1)
            p.insert_python("INJ", *args, module="vp_sink", attr="hit", **kw)
            return ("hit", ("INJ",) + args, {}), ("vp_sink", "hit"), where
        if callee == "hit-noargs":
            p.insert_python(module="vp_sink", attr="hit", **kw)
            return ("hit", (), {}), ("vp_sink", "hit"), where
    if mode == "append_python":
        if opt["callee"] == "eval":
            p.append_python(INJ_SRC, pop_result=opt["pop"])
            return ("hit", ("INJ", 7), {}), ("builtins", "eval"), "last"
        p.append_python("INJ", 7, module="vp_sink", attr="hit", pop_result=opt["pop"])
        return ("hit", ("INJ", 7), {}), ("vp_sink", "hit"), "last"
    if mode == "insert_magic_int":
        if opt["index"] >= len(p) - 1:
            raise IndexError("vp: index at or past STOP is not a meaningful request")
        p.insert_magic_int(opt["magic"], index=opt["index"])
        return None, None, None
    if mode == "insert_fn":
        p.insert_function_call_on_unpickled_object(FN_DEF, constant_args=opt["args"], compile_code=opt["compile"])
        return ("fn", tuple(opt["args"] or ()), {"ann": 1}), None, "last"
    raise ValueError(mode)


REFUSED = {
    # helper calls a correct implementation refuses (arguments the helpers do not support / a definition
    # that does not compile); what matters is the *next*, valid, injection into the same object
    "fn-syntax-compiled": lambda p: p.insert_function_call_on_unpickled_object("def broken(:\n  pass", compile_code=True),
    "fn-noname": lambda p: p.insert_function_call_on_unpickled_object("lambda x: x"),
    "fn-badargs": lambda p: p.insert_function_call_on_unpickled_object("def g(o, a):\n    return o\n", constant_args=[{1}]),
    "fn-badargs-compiled": lambda p: p.insert_function_call_on_unpickled_object(
        "def g(o, a):\n    return o\n", constant_args=["ok", {1}], compile_code=True),
    "python-unsupported-arg": lambda p: p.insert_python("a", {1, 2}, module="vp_sink", attr="hit"),
    "python-unsupported-nested-last": lambda p: p.insert_python("a", [[1], {1, 2}], module="vp_sink", attr="hit", run_first=False),
    "python-obj-partial": lambda p: p.insert_python_obj(1, [[1, 2], {3}]),
    "append-unsupported-arg": lambda p: p.append_python("fine", object(), module="vp_sink", attr="hit"),
    "exec-none": lambda p: p.insert_python_exec(None),
}


def kinds(x):
    """numeric leaves with their exact kind and spelling (1 / 1.0 / True / -0.0 all differ); other leaves None"""
    if type(x) in (int, float, bool):
        return (type(x).__name__, repr(x))
    if isinstance(x, (list, tuple)):
        return tuple(kinds(y) for y in x)
    if isinstance(x, dict):
        return tuple((kinds(k), kinds(v)) for k, v in x.items())
    return None


def veq(a, b):
    try:
        return type(a) is type(b) and a == b and kinds(a) == kinds(b)
    except Exception:
        return False


def check(ctx, f, analysis, label, base, mode, opt):
    agg = ctx.agg
    key = h(repr((base, mode, sorted(opt.items(), key=str))).encode())
    names = gen.op_names(base) or []
    nontrivial = any(n in ("REDUCE", "BUILD", "NEWOBJ", "INST", "OBJ", "BINPUT", "PUT", "MEMOIZE", "LONG_BINPUT",
                           "APPEND", "APPENDS", "SETITEM", "SETITEMS", "TUPLE", "TUPLE2", "LIST") for n in names)
    if not agg.case(key, nontrivial, {"base": label, "base_ops": names[:14], "mode": mode, "options": {k: str(v) for k, v in opt.items()}}):
        return
    w = {"label": label, "hex": base.hex() if len(base) < 6000 else base[:6000].hex(), "mode": mode,
         "options": {k: (v if isinstance(v, (int, str, bool, type(None))) else repr(v)) for k, v in opt.items()}}
    if len(base) >= 6000:
        w["truncated"] = True
    (bout, blog, bfinds) = real_load(base)
    if bout[0] != "ret":
        agg.count("base_not_loadable")
        return
    try:
        p = f.Pickled.load(base)
        f.Interpreter(p).run()
    except Exception:
        agg.count("base_not_interpretable_by_fickling")
        return
    try:
        if mode == "cli":
            # the same injection through the command line (`fickling --inject CODE [--run-last] [--replace-result] FILE`)
            from vp.props import c18
            import fickling.cli as cli
            path = os.path.join(ctx.scratch, "c08_cli_in.pkl")
            with open(path, "wb") as fh:
                fh.write(base)
            argv = ["fickling", "--inject", INJ_SRC] + (["--run-last"] if not opt["run_first"] else []) + \
                (["--replace-result"] if opt["replace"] else []) + [path]
            try:
                rc, outb, outt, err = c18.run_cli(cli, argv)
            finally:
                os.remove(path)
            if rc != 0:
                raise ValueError(f"CLI exit {rc}: {err[:100]}")
            out = outb
            inj_event, inj_glob, where = ("hit", ("INJ", 7), {}), ("builtins", "eval"), ("first" if opt["run_first"] else "last")
            p = None
        elif opt.get("via_file"):
            # the usual way to rewrite a checkpoint: parse it from its file, inject, save over the same path
            vf_path = os.path.join(ctx.scratch, "c08_inplace.pkl")
            with open(vf_path, "wb") as fh:
                fh.write(base)
            with open(vf_path, "rb") as fh:
                p = f.Pickled.load(fh)
        elif opt.get("copied"):
            # one parsed base, independent deep copies of it injected one after the other (a payload per target from
            # one template): the copy looked at is the third one, or the original after its copies were rewritten
            import copy
            p0 = f.Pickled.load(base)
            plain = {k: v for k, v in opt.items() if k != "copied"}
            for _ in range(2):
                sib = copy.deepcopy(p0)
                try:
                    inject(f, sib, mode, plain)
                    sib.dumps()
                except Exception:
                    pass
            p = copy.deepcopy(p0) if opt["copied"] == "third-copy" else p0
            agg.count("copied_base_injections")
        else:
            p = f.Pickled.load(base)
        if p is None:
            pass
        elif opt.get("refused_first"):
            # history: a helper call that is refused, then the valid injection on the same object
            try:
                REFUSED[opt["refused_first"]](p)
                agg.count("refused_first_was_accepted")
                return
            except Exception:
                agg.count("refused_first_attempts")
        if p is not None:
            inj_event, inj_glob, where = inject(f, p, mode, opt)
            if opt.get("via_file"):
                ref = p.dumps()
                try:
                    with open(vf_path, "wb") as fh:
                        p.dump(fh)
                    with open(vf_path, "rb") as fh:
                        out = fh.read()
                except Exception as e:
                    out = b"EXC:" + type(e).__name__.encode()
                os.remove(vf_path)
                if out != ref:
                    agg.violation(f"saved-in-place-differs:{mode}",
                                  f"the pickle saved over its own source file ({out[:40]!r}..., {len(out)} bytes) is not what dumps() "
                                  f"gave just before ({len(ref)} bytes)", w)
                    return
            else:
                out = p.dumps()
    except Exception as e:
        agg.hist("injection_refused", f"{mode}:{type(e).__name__}")
        return
    agg.count("injections_built")
    if not gate(out, rewritten=True):
        agg.inconclusive.append(f"harness: rewritten bytes of {label}/{mode} fail the load_for_real gate")
        return
    # structure: single trailing STOP
    try:
        ops = [(o.name, a) for o, a, _ in pickletools.genops(out)]
        consumed = sum(1 for _ in pickletools.genops(out))
    except Exception as e:
        agg.violation(f"rewritten-not-a-pickle:{mode}", f"pickletools cannot read the rewritten bytes: {e}"[:200], w)
        return
    if not ops or ops[-1][0] != "STOP" or sum(1 for n, _ in ops if n == "STOP") != 1:
        agg.violation(f"stop-structure:{mode}", "rewritten pickle does not end with its single STOP", w)
    if gen.frames_wellformed(base) is None:
        agg.count("framing_checked")
        fault = gen.frames_wellformed(out)
        if fault is not None:
            agg.violation(f"rewritten-framing:{mode}", f"the base is well framed, the rewritten pickle is not: {fault}", w)
    if mode == "insert_magic_int" and not any(n == "INT" and a == opt["magic"] for n, a in ops):
        agg.violation("magic-int-missing", "marker integer not present in the rewritten pickle", w)
    # load with the original C unpickler (and the Python one where applicable)
    loaders = ["c", "c-stream"]
    if mode != "insert_fn":
        loaders.append("py")
    for python in loaders:
        rout, rlog, rfinds = real_load(out, python=python)
        agg.count("rewritten_loads")
        tag = f"{mode}:{python}"
        if rout[0] != "ret":
            agg.violation(f"rewritten-load-raises:{tag}",
                          f"loading the rewritten pickle raises {type(rout[1]).__name__}: {str(rout[1])[:120]}", w)
            continue
        # effects: original in original order + injected once at the prescribed position
        if inj_event is None:
            want_log = blog
        elif where == "first":
            want_log = [inj_event] + blog
        else:
            want_log = blog + [inj_event]
        agg.count("effect_logs_compared")
        if rlog != want_log or kinds(rlog) != kinds(want_log):
            n_inj = sum(1 for e in rlog if e == inj_event) - sum(1 for e in blog if e == inj_event) if inj_event else 0
            if inj_event is not None and n_inj != 1:
                k2 = f"injected-call-count:{tag}"
                what = f"injected call observed {n_inj} times (expected exactly once)"
            elif [e for e in rlog if e != inj_event] != [e for e in blog if e != inj_event]:
                k2 = f"original-effects-changed:{tag}"
                what = "effects of the original pickle are not preserved in order"
            else:
                k2 = f"injected-call-position-or-args:{tag}"
                what = "injected call is not at the prescribed position or has other arguments"
            agg.violation(k2, what + f": got {rlog!r} want {want_log!r}"[:400], w)
        # return value
        keep = (mode in ("insert_python", "cli") and not opt["replace"]) or (mode == "append_python" and opt["pop"]) \
            or mode in ("insert_magic_int", "insert_fn")
        if keep:
            if not veq(rout[1], bout[1]):
                agg.violation(f"return-value:{tag}", f"keep-mode returned {rout[1]!r}, original is {bout[1]!r}"[:300], w)
        else:
            want_val = ("hit-result",) + tuple(inj_event[1])
            if not veq(rout[1], want_val):
                agg.violation(f"return-value-replace:{tag}", f"replace-mode returned {rout[1]!r}, injected call's value is {want_val!r}"[:300], w)
        # find_class sequence = base's with the injected global spliced in
        agg.count("find_class_sequences_compared")
        nb = [refvm.norm_global(m, n) for m, n in bfinds]
        nr = [refvm.norm_global(m, n) for m, n in rfinds]
        if mode == "insert_fn":
            extra = [x for x in nr if x not in nb]
            ok = nr[:len(nb)] == nb and set(extra) <= {("builtins", "exec"), ("builtins", "eval"), ("marshal", "loads")}
        elif inj_glob is None:
            ok = nr == nb
        elif mode in ("insert_python", "cli"):
            ok = nr == [inj_glob] + nb
        else:
            ok = nr == nb + [inj_glob]
        if not ok:
            agg.violation(f"find-class-sequence:{tag}", f"globals resolved {nr!r}; base resolves {nb!r}, injected {inj_glob!r}"[:400], w)
    # stack at STOP on the reference VM
    vm = refvm.RefVM(out)
    try:
        vm.run()
        agg.count("stack_at_stop_checked")
        if vm.depth() != 0:
            if mode == "append_python" and not opt["pop"]:
                kk = "stack-leftover:append-nopop"
            else:
                kk = f"stack-leftover:{mode}"
            agg.violation(kk, f"VM stack holds {vm.depth()} item(s) at STOP", w)
    except Exception as e:
        agg.count("refvm_rejected_rewritten")
    # fickling's own verdict on the rewritten bytes
    if inj_event is not None:
        try:
            sev = analysis.check_safety(f.Pickled.load(out)).severity.name
            if sev == "LIKELY_SAFE":
                agg.violation(f"verdict-likely-safe:{mode}", "fickling rates its own call-injected pickle LIKELY_SAFE", w)
        except Exception as e:
            agg.hist("rewritten_not_analysable", type(e).__name__)


BENIGN_CALLEES = [("builtins", "len", ["abc"]), ("textwrap", "dedent", ["  x"]), ("builtins", "sorted", [[3, 1]]), ("operator", "add", [1, 2]),
                  ("collections", "OrderedDict", []), ("os.path", "basename", ["/a/b"]), ("builtins", "str", [5]), ("math", "sqrt", [4.0]),
                  ("__main__", "helper", [1])]


def benign_callee_verdicts(ctx, f, analysis, label, base):
    """The injected call need not look dangerous: whatever callable the caller names, and whatever becomes of its value,
    fickling's own check must not rate the rewritten pickle LIKELY_SAFE."""
    agg = ctx.agg
    for (m, n, args) in BENIGN_CALLEES:
        for how in ("first-keep", "first-replace", "last-keep", "last-replace", "append-pop", "append-keep"):
            key = h(repr((base, "benign-callee", m, n, how)).encode())
            if not agg.case(key, True, {"base": label, "mode": "benign-callee", "callee": f"{m}.{n}", "how": how}):
                continue
            try:
                p = f.Pickled.load(base)
                if how.startswith("append"):
                    p.append_python(*args, module=m, attr=n, pop_result=how.endswith("pop"))
                else:
                    p.insert_python(*args, module=m, attr=n, run_first=how.startswith("first"),
                                    use_output_as_unpickle_result=how.endswith("replace"))
                out = p.dumps()
                sev = analysis.check_safety(f.Pickled.load(out)).severity.name
            except Exception as e:
                agg.hist("injection_refused", f"benign-callee:{type(e).__name__}")
                continue
            agg.count("benign_callee_verdicts")
            if sev == "LIKELY_SAFE":
                agg.violation(f"verdict-likely-safe:benign-callee:{how}",
                              f"a pickle with an injected call of {m}.{n} ({how}) is rated LIKELY_SAFE by fickling's own check",
                              {"label": label, "hex": base.hex()[:2000], "mode": "benign-callee", "options": {"callee": f"{m}.{n}", "how": how}})


def chained_bases(ctx, f, blist):
    """Second-generation bases: pickles that already carry one injection (every rewritten pickle
    ends in STOP, so the helpers must compose)."""
    rng = asm.rng_for(ctx.seed, "c08chain")
    out = []
    n = {"quick": 60, "thorough": 1500}[ctx.tier]
    tries = 0
    while len(out) < n and tries < n * 5:
        tries += 1
        label, base = rng.choice(blist)
        mode, opt = rng.choice(MODES)
        if mode == "insert_fn" or len(base) > 3000:
            continue
        try:
            p = f.Pickled.load(base)
            inject(f, p, mode, opt)
            data = p.dumps()
        except Exception:
            continue
        vm = refvm.RefVM(data)
        try:
            vm.run()
        except Exception:
            continue
        if vm.depth() != 0:
            continue          # (only append_python(pop_result=False): the recorded stack-leftover finding)
        if gate(data, rewritten=True):
            out.append((f"chained[{mode}]-{label}", data))
    return out


def run_shard(ctx):
    import fickling  # noqa: F401
    import fickling.fickle as f
    import fickling.analysis as analysis
    i = 0
    blist = [(lab, b) for lab, b in bases(ctx) if gate(b)]
    ctx.agg.count("bases", len(blist))
    second = chained_bases(ctx, f, blist)
    # third generation: bases the library rewrote twice in run-first mode (both rewrites park the value at the same key)
    for lab, b in list(blist[:40:4]):
        if len(b) > 3000:
            continue
        try:
            p3 = f.Pickled.load(b)
            p3.insert_python_eval("1+1", run_first=True, use_output_as_unpickle_result=False)
            p3 = f.Pickled.load(p3.dumps())
            p3.insert_python_eval("2+2", run_first=True, use_output_as_unpickle_result=False)
            d3 = p3.dumps()
        except Exception:
            continue
        if gate(d3, rewritten=True):
            second.append((f"rewritten-twice-{lab}", d3))
            ctx.agg.count("rewritten_twice_bases")
    ctx.agg.count("chained_bases", len(second))
    for label, base in blist + second:
        for mode, opt in MODES:
            i += 1
            if i % ctx.nshards != ctx.shard:
                continue
            check(ctx, f, analysis, label, base, mode, opt)
    for bi, (label, base) in enumerate(blist[:12] + blist[-6:]):
        if bi % ctx.nshards == ctx.shard and len(base) < 3000:
            benign_callee_verdicts(ctx, f, analysis, label, base)
    # rewrite in place: bases with a large constant, parsed from their file and saved over it
    for label, base in blist:
        if len(base) < 60000:
            continue
        for mode, opt in MODES:
            if mode in ("insert_python", "append_python", "insert_fn"):
                i += 1
                if i % ctx.nshards == ctx.shard:
                    check(ctx, f, analysis, label, base, mode, dict(opt, via_file=True))
                    ctx.agg.count("in_place_rewrites")
    # histories: deep copies of one parsed base rewritten one after the other
    for bi, (label, base) in enumerate(blist):
        if len(base) > 3000 or bi % 3:
            continue
        for mode, opt in MODES:
            i += 1
            if i % ctx.nshards == ctx.shard and (ctx.tier != "quick" or i % 3 == 0):
                check(ctx, f, analysis, label, base, mode, dict(opt, copied="third-copy" if i % 2 else "original-after-copies"))
    # histories: refused helper call -> valid injection, on the same parsed object
    rng = asm.rng_for(ctx.seed, "c08refused")
    nref = {"quick": 40, "thorough": 600}[ctx.tier]
    picks = [rng.choice(blist) for _ in range(nref)]
    for label, base in picks:
        if len(base) > 3000:
            continue
        for rname in sorted(REFUSED):
            for mode, opt in MODES:
                i += 1
                if i % ctx.nshards != ctx.shard or (ctx.tier == "quick" and rng.random() > 0.25):
                    continue
                check(ctx, f, analysis, label, base, mode, dict(opt, refused_first=rname))


def replay(ctx, payload):
    import fickling  # noqa: F401
    import fickling.fickle as f
    import fickling.analysis as analysis
    c = payload["case"]
    if c.get("truncated"):
        ctx.agg.inconclusive.append("witness base was truncated; re-run the check")
        return
    opt = dict(c["options"])
    if "args" in opt and isinstance(opt["args"], str):
        opt["args"] = eval(opt["args"])
    check(ctx, f, analysis, c.get("label", "replay"), bytes.fromhex(c["hex"]), c["mode"], opt)

"""Workload generators: recursive values (G-val), natural pickles at every protocol, the labelled
vocabulary of globals (G-voc), byte-level corruption (G-cor).  No fickling imports."""
import io
import pickle
import pickletools
import random
import struct

INTS = [0, 1, -1, 2, 127, 128, 255, 256, 257, 65535, 65536, 65537, 2**31 - 1, 2**31, 2**31 + 1,
        -2**31, -2**31 - 1, 2**63 - 1, 2**63, 2**63 + 1, -2**63, -2**63 - 1, 2**200, -2**200]
FLOATS = [0.0, -0.0, 1.5, -2.25, 1e300, 5e-324, float("inf"), float("-inf")]
STRS = ["", "a", "abc", "123", "-7", "0x1f", "1.5", "é", "ÿĀ", "中文",
        "\U0001f600", "a\nb", "a\rb", "\\", "\\n", "'", '"', "'\"", "\x00", "\x1a", "\x7f\x80",
        "tab\there", " lead", "trail ", "x" * 255, "x" * 256, "é" * 128,
        "\\u0041", "caf\\u00e9", "\\U0001f600", "\\x41", "\\N{DASH}", "\\\\u0041", "C:\\users\\new", "%s %d", "{0}{name}",
        "$HOME `id`", "\\", "a\\", "\\u", "\\u00", "\ud800"]
BYTESES = [b"", b"a", b"123", b"\x00", b"\xff", b"\n", b"'\"\\", b"a" * 255, b"a" * 256, b"\x80abc"]


# ints of several 2048-bit limbs, both signs, with non-zero and with all-zero low limbs (all within CPython's 4300-digit
# int/str limit, so that printing them is not the issue)
WIDE_INTS = [10 ** 700 + 7, -(10 ** 700) - 7, 3 ** 4000, -(3 ** 4000), -(2 ** 4000) - 1, -(2 ** 2048), 2 ** 2048 - 1, -(2 ** 2049) + 1,
             -(1 << 6000) + (1 << 3000) - 1]


def scalars():
    out = [None, True, False]
    out += INTS + FLOATS + STRS + BYTESES + WIDE_INTS + [[w, -w] for w in WIDE_INTS[:3]]
    return out


class ValueGen:
    """Recursive acyclic values with shared sub-objects."""

    def __init__(self, rng, plain_only=False, max_depth=5):
        self.rng = rng
        self.plain_only = plain_only
        self.max_depth = max_depth
        self.pool = []

    def scalar(self):
        r = self.rng
        k = r.random()
        if k < 0.1:
            return r.choice([None, True, False])
        if k < 0.4:
            return r.choice(INTS) if r.random() < 0.6 else r.randint(-70000, 70000)
        if k < 0.5:
            return r.choice(FLOATS)
        if k < 0.8:
            return r.choice(STRS[:-1])   # lone surrogate only in the fixed list
        return r.choice(BYTESES)

    def hashable(self, depth):
        r = self.rng
        k = r.random()
        if k < 0.75 or depth >= self.max_depth:
            v = self.scalar()
            return v
        if k < 0.9:
            return tuple(self.hashable(depth + 1) for _ in range(r.randint(0, 3)))
        return frozenset(self.hashable(depth + 1) for _ in range(r.randint(0, 3)))

    def value(self, depth=0):
        r = self.rng
        if depth >= self.max_depth or r.random() < 0.25:
            return self.scalar()
        if self.pool and r.random() < 0.2:
            return r.choice(self.pool)          # shared reference
        k = r.random()
        if k < 0.22:
            v = [self.value(depth + 1) for _ in range(r.choice([0, 1, 2, 3, 5]))]
        elif k < 0.40:
            v = tuple(self.value(depth + 1) for _ in range(r.choice([0, 1, 2, 3, 4, 6])))
        elif k < 0.60:
            v = {self.hashable(depth + 1): self.value(depth + 1) for _ in range(r.choice([0, 1, 2, 4]))}
        elif k < 0.70:
            v = {self.hashable(depth + 1) for _ in range(r.choice([0, 1, 3]))}
        elif k < 0.78:
            v = frozenset(self.hashable(depth + 1) for _ in range(r.choice([0, 1, 3])))
        elif k < 0.82:
            v = bytearray(r.choice(BYTESES))
        elif self.plain_only:
            v = [self.value(depth + 1), self.value(depth + 1)]
        else:
            v = self.instance(depth)
        if isinstance(v, (list, dict, set, bytearray)) or (not self.plain_only and not isinstance(
                v, (tuple, frozenset, int, float, str, bytes, type(None)))):
            self.pool.append(v)
        return v

    def instance(self, depth):
        import vp_sink
        r = self.rng
        k = r.randrange(11)
        if k == 0:
            o = vp_sink.K()
            o.a = self.value(depth + 1)
            o.b = self.value(depth + 1)
            return o
        if k == 1:
            return vp_sink.KSlots(self.scalar(), self.value(depth + 1))
        if k == 2:
            return vp_sink.KReduce(self.scalar())
        if k == 3:
            return vp_sink.KReduceState(self.scalar())
        if k == 4:
            o = vp_sink.KNewArgs(1, "two")
            o.extra = self.value(depth + 1)
            return o
        if k == 5:
            return vp_sink.KNewArgsEx(1, kw=2)
        if k == 6:
            return vp_sink.KSetState()
        if k == 7:
            o = vp_sink.KList([self.value(depth + 1)])
            o.tag = self.scalar()
            return o
        if k == 8:
            o = vp_sink.KDict({"k": self.value(depth + 1)})
            return o
        if k == 9:
            return vp_sink.KSet([self.scalar() if not isinstance(self.scalar(), float) else 1])
        import collections
        return collections.OrderedDict([("z", self.value(depth + 1)), ("a", self.scalar())])


def directed_values():
    """Hand-written shapes that exercise sharing and memo traffic."""
    import vp_sink
    d = {"a": 1}
    l = [1, 2]
    s = {1, 2}
    k = vp_sink.K()
    k.a = 1
    big = list(range(300))
    shared_many = [[i] for i in range(300)]
    out = [
        [d, d], (l, l, [l]), [s, s], [k, k], {"x": d, "y": d}, [[], []], [{}, {}], (d, [d, (d,)]),
        [l, {"l": l}, (l,)], [set(), frozenset()], [frozenset({1, 2}), {3}], (1, 2, 3, 4), (1,), (),
        [big, big], shared_many + shared_many[:5], {"k": [1, {"z": (2, 3)}]},
        {1: {2: {3: {4: [5]}}}}, [bytearray(b"x"), bytearray(b"")], [1.5, -0.0, 2**70, -2**70],
        [vp_sink.KNewArgs(1, "two")] * 2, [vp_sink.KReduceState(3)] * 2, [vp_sink.KSlots(1, [2])] * 2,
        [vp_sink.KSetState(), vp_sink.KList([1]), vp_sink.KDict({"a": 1}), vp_sink.KSet([1])],
        {"nested": {"deeper": [d, {"again": d}]}}, [(1, 2), (1, 2)], ["s", "s", b"b", b"b"],
        [None, True, False, 0, 1], {True: 1, 2: None}, [{1, 2, 3}, {"a", "b"}],
        complex(1, 2), [range(3)], [slice(1, 2)], {"t": (d, d)},
        # the pickler's batch size is 1000: one item, two items and many items past it
        set(range(1001)), set(range(1002)), set(range(1500)), {"w%d" % i for i in range(1003)},
        list(range(1001)), list(range(2003)), dict.fromkeys(range(1001)), {i: str(i) for i in range(2002)},
        [set(range(1002)), {"k": set(range(1003))}],
        # scale: tens of thousands of opcodes (several FRAMEs at protocol >= 4, thousands of memo entries)
        list(range(20000)), {i: [i] for i in range(6000)}, [("s%d" % i, float(i)) for i in range(5000)],
    ]
    return out


def strip_frames(data):
    """Re-assemble a pickle without FRAME opcodes (unframed protocol >= 4)."""
    out = bytearray()
    ops = list(pickletools.genops(data))
    for i, (op, arg, pos) in enumerate(ops):
        end = ops[i + 1][2] if i + 1 < len(ops) else len(data)
        if op.name == "FRAME":
            continue
        out += data[pos:end]
    return bytes(out)


def natural_pickles(value):
    """Every protocol's encoding of value, framed as produced and unframed.  Yields
    (label, bytes); values a protocol cannot encode are skipped."""
    for proto in range(0, 6):
        try:
            b = pickle.dumps(value, protocol=proto)
        except Exception:
            continue
        yield f"p{proto}", b
        if proto >= 4 and b"\x95" in b:
            try:
                u = strip_frames(b)
            except Exception:
                continue
            if u != b:
                yield f"p{proto}u", u


def py_pickle(value, proto):
    """Pure-Python pickler output (different opcode choices from the C pickler in places)."""
    f = io.BytesIO()
    pickle._Pickler(f, proto).dump(value)
    return f.getvalue()


def op_names(data):
    try:
        return [op.name for op, _, _ in pickletools.genops(data)]
    except Exception:
        return None


# ----------------------------------------------------------------------------------------
# G-voc: labelled vocabulary

EVALCLASS = ["eval", "exec", "compile", "open"]
BUILTIN_OTHER = ["getattr", "__import__", "setattr", "len", "set", "bytearray", "print", "map",
                 "globals", "breakpoint", "input", "vars", "delattr", "memoryview"]
BUILTIN_MODULES = ["builtins", "__builtin__"]
DANGEROUS = [("os", "system"), ("os", "getpid"), ("os.path", "join"), ("posix", "system"),
             ("nt", "system"), ("subprocess", "Popen"), ("subprocess", "check_output"),
             ("sys", "exit"), ("sys", "modules"), ("socket", "socket"), ("socket", "create_connection"),
             ("shutil", "rmtree"), ("shutil", "copy"), ("urllib", "parse"), ("urllib.request", "urlopen"),
             ("urllib.parse", "quote"), ("torch.hub", "load"), ("dill", "loads"), ("dill._dill", "_load_type"),
             ("code", "InteractiveInterpreter"), ("code", "interact")]
BENIGN_STDLIB = [("collections", "OrderedDict"), ("datetime", "date"), ("decimal", "Decimal"),
                 ("fractions", "Fraction"), ("collections", "deque"), ("uuid", "UUID"),
                 ("pathlib", "PurePosixPath"), ("copyreg", "_reconstructor"), ("_codecs", "encode")]
NONSTD = [("vp_sink", "hit"), ("vp_sink", "K"), ("vp_canary_0", "f"), ("vp_canary_1.sub", "g"),
          ("numpy", "dtype"), ("numpy.core.multiarray", "_reconstruct"), ("torch._utils", "_rebuild_tensor_v2"),
          ("somepkg.mod", "Thing"), ("pip", "main")]
# ("__main__", X) is deliberately not in the vocabulary: stdlib_list documents __main__ as a library
# module while pickled classes living there are user code - a contested label is a don't-care.

# attribute names that opcode handlers, analyses or the decompiler's own naming scheme could plausibly
# special-case; used as callee names from builtins *and* from other modules
TYPE_NAMES = ["set", "frozenset", "bytearray", "range", "complex", "slice", "dict", "list", "tuple", "object",
              "type", "str", "int", "bytes", "float", "bool"]
RULE_NAMES = ["load", "loads", "getitem", "attrgetter", "itemgetter", "methodcaller", "runstring",
              "_load_from_bytes", "system", "OrderedDict", "_reconstructor", "encode", "_run_code", "execWrapper"]
SCHEME_NAMES = ["result", "_var0", "_var1", "UNPICKLER", "persistent_load", "__setstate__", "update"]
SPECIAL_NAMES = EVALCLASS + BUILTIN_OTHER + TYPE_NAMES + RULE_NAMES + SCHEME_NAMES

RESOLVE_OPS = ["GLOBAL", "STACK_GLOBAL", "INST"]
CALL_OPS = ["REDUCE", "OBJ", "INST", "NEWOBJ", "NEWOBJ_EX"]
FATES = ["result", "pop", "pop_mark", "dup", "memo_unused", "memo_reused", "in_list", "in_tuple",
         "in_dict", "in_set", "build_target", "under_result"]
FRAMINGS = ["none", "proto0", "proto2", "proto3", "proto4", "proto5", "proto4frame"]


def _sbu(s):
    b = s.encode("utf-8", "surrogatepass")
    return b"\x8c" + bytes([len(b)]) + b


def push_global(resolve, module, name):
    if resolve == "GLOBAL":
        return b"c" + module.encode("utf-8", "surrogatepass") + b"\n" + name.encode("utf-8", "surrogatepass") + b"\n"
    if resolve == "STACK_GLOBAL":
        return _sbu(module) + _sbu(name) + b"\x93"
    if resolve == "GLOBAL-memo-collide":
        # a benign global is stored at explicit index 1 of an empty memo; MEMOIZE of the real one then
        # writes memo[len(memo)] = memo[1] and overwrites it (pickle VM semantics); BINGET 1 fetches it
        return (b"ccollections\nOrderedDict\nq\x010" + b"c" + module.encode("utf-8", "surrogatepass") + b"\n" + name.encode("utf-8", "surrogatepass") + b"\n" +
                b"\x940h\x01")
    if resolve == "STACK_GLOBAL-memo-collide":
        return (_sbu("collections") + b"q\x010" + _sbu(module) + b"\x940h\x01" + _sbu(name) + b"\x93")
    if resolve == "STACK_GLOBAL-via-memo":
        return (_sbu(module) + b"q\x050" + _sbu(name) + b"r\x00\x01\x00\x000" + b"h\x05" + b"j\x00\x01\x00\x00" + b"\x93")
    raise ValueError(resolve)


# stdlib submodules whose parent package a fresh interpreter has not imported: resolving them "to have a
# look" is observable as an import of the parent package
UNLOADED_STDLIB = [("wsgiref.util", "FileWrapper"), ("xmlrpc.client", "ServerProxy"), ("dbm.dumb", "open"),
                   ("sqlite3.dbapi2", "connect"), ("xml.dom.minidom", "parse"), ("unittest.mock", "Mock"),
                   ("multiprocessing.dummy", "Pool"), ("email.mime.text", "MIMEText"), ("json.tool", "main"),
                   ("logging.handlers", "SocketHandler"), ("concurrent.futures.process", "ProcessPoolExecutor"),
                   ("curses.ascii", "isalpha"), ("wsgiref.nosuchsub", "x"), ("xml.etrea.ElementTree", "parse"),
                   ("turtledemo.clock", "main"), ("pydoc_data.topics", "topics"), ("lib2to3.pgen2.driver", "Driver")]


def arg_bytes(args):
    """args: list of str / int.  Encodes with binary opcodes."""
    out = b""
    for a in args:
        if isinstance(a, str):
            out += _sbu(a)
        elif isinstance(a, int) and 0 <= a < 256:
            out += b"K" + bytes([a])
        elif a is None:
            out += b"N"
        elif isinstance(a, bytes) and len(a) < 256:
            out += b"C" + bytes([len(a)]) + a
        else:
            raise ValueError(a)
    return out


def make_call(resolve, callop, module, name, args):
    """Bytes that leave the call's value on the stack; None if the combination is impossible."""
    ab = arg_bytes(args)
    if callop == "INST":
        if resolve != "INST":
            return None
        return b"(" + ab + b"i" + module.encode("utf-8", "surrogatepass") + b"\n" + name.encode("utf-8", "surrogatepass") + b"\n"
    if resolve == "INST":
        return None
    if resolve not in ("GLOBAL", "STACK_GLOBAL") and resolve.split("-")[0] not in ("GLOBAL", "STACK_GLOBAL"):
        return None
    g = push_global(resolve, module, name)
    if callop == "REDUCE":
        return g + b"(" + ab + b"t" + b"R"
    if callop == "OBJ":
        return b"(" + g + ab + b"o"
    if callop == "NEWOBJ":
        return g + b"(" + ab + b"t" + b"\x81"
    if callop == "NEWOBJ_EX":
        return g + b"(" + ab + b"t" + b"}" + b"\x92"
    raise ValueError(callop)


def apply_fate(value_bytes, fate):
    """Wrap bytes that push one value so that the value meets the given fate; result program
    (without framing, with STOP)."""
    v = value_bytes
    if fate == "result":
        return v + b"."
    if fate == "pop":
        return v + b"0N."
    if fate == "pop_mark":
        return b"(" + v + b"1N."
    if fate == "dup":
        return v + b"20."
    if fate == "memo_unused":
        return v + b"q\x070K\x01."
    if fate == "memo_reused":
        return v + b"q\x070h\x07h\x07\x86."
    if fate == "in_list":
        return b"]" + v + b"a."
    if fate == "in_tuple":
        return b"K\x01" + v + b"\x86."
    if fate == "in_dict":
        return b"}" + _sbu("k") + v + b"s."
    if fate == "in_set":
        return b"\x8f(" + v + b"\x90."
    if fate == "build_target":
        return v + b"}" + _sbu("a") + b"K\x01sb."
    if fate == "under_result":
        return v + b"N."
    raise ValueError(fate)


def frame(body, framing, pre=b"", post_before_stop=b""):
    """Add protocol header / frame and optional benign data.  body ends with STOP."""
    assert body.endswith(b".")
    core = pre + body[:-1] + post_before_stop + b"."
    if framing == "none":
        return core
    if framing.startswith("proto") and not framing.endswith("frame"):
        return b"\x80" + bytes([int(framing[5:])]) + core
    if framing == "proto4frame":
        return b"\x80\x04\x95" + struct.pack("<Q", len(core)) + core
    raise ValueError(framing)


BENIGN_PRE = [b"", b"]K\x01aK\x02a0", b"(K\x01K\x02K\x03t0", b"}" + _sbu("a") + b"K\x01s0"]
BENIGN_POST = [b"", b"]K\x05a\x86", b"K\x09\x86"]   # wrap result into a tuple with benign data


def bitflips(data, rng, n):
    out = []
    if not data:
        return out
    for _ in range(n):
        b = bytearray(data)
        i = rng.randrange(len(b))
        b[i] ^= 1 << rng.randrange(8)
        out.append(bytes(b))
    return out


def corruptions(data, rng, budget=12):
    """Truncations at opcode boundaries and mid-argument, bit/byte flips, opcode substitution,
    length-field inflation, splice, garbage."""
    out = []
    try:
        ops = list(pickletools.genops(data))
    except Exception:
        ops = []
    bounds = [pos for _, _, pos in ops if pos]
    picks = rng.sample(bounds, min(len(bounds), max(1, budget // 4))) if bounds else []
    for p in picks:
        out.append(("trunc@op", data[:p]))
        if p + 1 < len(data):
            out.append(("trunc@mid", data[:p + 1 + rng.randrange(2)]))
    out += [("bitflip", b) for b in bitflips(data, rng, max(1, budget // 4))]
    if ops:
        for _ in range(max(1, budget // 6)):
            op, arg, pos = rng.choice(ops)
            b = bytearray(data)
            b[pos] = rng.choice(b"cio\x81\x92\x93RbQP2.01(tld\x90\x91\x94ghjpqr}])NFGIJKLMSTUVX\x8a\x8b\x8c\x8d\x8e\x95\x96\x97\x98\x82\x83\x84")
            out.append(("opsub", bytes(b)))
        for op, arg, pos in ops:
            if op.name in ("BINUNICODE", "BINBYTES", "BINSTRING", "LONG4") and rng.random() < 0.5:
                b = bytearray(data)
                b[pos + 1:pos + 5] = struct.pack("<I", rng.choice([0x7fffffff, 0xffffffff, 0x10000, len(data)]))
                out.append(("leninflate", bytes(b)))
                break
            if op.name in ("BINUNICODE8", "BINBYTES8", "FRAME", "BYTEARRAY8") and rng.random() < 0.5:
                b = bytearray(data)
                b[pos + 1:pos + 9] = struct.pack("<Q", rng.choice([2**63 - 1, 2**64 - 1, 2**33, 7]))
                out.append(("leninflate8", bytes(b)))
                break
    if len(data) > 4:
        cut = rng.randrange(1, len(data) - 1)
        out.append(("splice", data[:cut] + data))
    out.append(("garbage", bytes(rng.randrange(256) for _ in range(rng.randint(1, 40)))))
    return out


def frames_wellformed(data):
    """Structural check of protocol-4 framing, no execution: every FRAME's announced byte range must end inside
    the pickle, on an opcode boundary, and must not contain another FRAME header.  Returns None or a
    description of the first fault."""
    try:
        ops = [(op.name, arg, pos) for op, arg, pos in pickletools.genops(data)]
    except Exception as e:
        return f"not parseable: {e}"
    starts = {pos for _, _, pos in ops}
    end_of_pickle = ops[-1][2] + 1 if ops and ops[-1][0] == "STOP" else len(data)
    starts.add(end_of_pickle)
    frames = [(pos, arg) for name, arg, pos in ops if name == "FRAME"]
    for pos, length in frames:
        end = pos + 9 + length
        if end > end_of_pickle:
            return f"FRAME at {pos} announces {length} bytes, which runs past the end of the pickle"
        if end not in starts:
            return f"FRAME at {pos} announces {length} bytes and ends at {end}, in the middle of an opcode"
        inner = [p2 for p2, _ in frames if pos < p2 < end]
        if inner:
            return f"FRAME at {pos} contains the FRAME header at {inner[0]}"
    return None

#!/usr/bin/env python3
"""Run every kept seeded change against its property's check; prints one line each and a summary.
Optional arguments: property ids to restrict the run to (e.g. `seeded_all.py C03 C14`)."""
import glob
import json
import os
import subprocess
import sys

ROOT = os.path.dirname(os.path.dirname(os.path.abspath(__file__)))
rows = []
for d in sorted(glob.glob(os.path.join(ROOT, "seeded", "C*"))):
    meta = json.load(open(os.path.join(d, "meta.json")))
    prop = os.path.basename(d)[:3]
    if len(sys.argv) > 1 and prop not in sys.argv[1:]:
        continue
    if str(meta.get("assessment", "")).lower().startswith("not counted"):
        print("NOT-COUNTED " + os.path.basename(d), meta["assessment"][:120], flush=True)
        continue
    check_with = meta.get("check_with", prop)      # a change to one property's code may be decided by another property's check
    env = dict(os.environ)
    if "base_rev" in meta:
        env["SEED_BASE_REV"] = meta["base_rev"].split()[0]
    r = subprocess.run([sys.executable, os.path.join(ROOT, "tools", "seeded.py"), "check", d, check_with], env=env,
                       capture_output=True, text=True)
    first = [ln.strip() for ln in r.stdout.splitlines() if ln.strip().startswith("[")][:1]
    ok = r.returncode == 0
    rows.append((os.path.basename(d), ok))
    print(("CAUGHT " if ok else "MISSED ") + os.path.basename(d), (first[0][:150] if first else ""), flush=True)
print(f"{sum(1 for _, ok in rows if ok)}/{len(rows)} caught")
sys.exit(0 if all(ok for _, ok in rows) else 1)

"""C03 - No hidden execution: every import / call of the reference VM is in the decompile."""
from vp import diffengine as de, diffrun, refvm
from vp.core import h

CONFIG = dict(
    level="exploration",
    rule=("typed opcode programs (bounded-exhaustive over a 37-symbol alphabet, sharded by 2-symbol "
          "prefix; seeded random long programs over a wide alphabet; every protocol's encoding of "
          "generated values; call-opcode x fate vocabulary matrix; one program per pickle opcode; the identical call repeated 2-3 times through every call opcode; "
          "special-cased callee names from builtins, a stdlib and a non-stdlib module; torch-saved pickles). "
          "Every refusal is retried on the same object; accepted programs are (sampled) decompiled, injected into, decompiled again, three times over on one object; the tracer and a hand-driven Interpreter are exercised as further decompile paths. "
          "A case is one distinct byte string; non-trivial = the reference VM accepted it, its event "
          "log has >=1 import or call, and fickling decompiled it (so the inclusion oracle ran)."),
    assumptions=[
        "CPython's pickle._Unpickler with stub find_class/persistent_load is the reference pickle VM",
        "NEWOBJ/NEWOBJ_EX on a stub class are logged as a call cls(*args, **kwargs)",
        "py2->py3 name mapping (_compat_pickle) is applied to both logs before comparison",
        "events are compared as multisets; order is C08's business",
        "a decompile whose execution under stubs raises is reported by C05, not here",
    ],
    min_nontrivial={"quick": 2000, "thorough": 50000},
    nshards={"quick": 16, "thorough": 16},
    timeout={"quick": 900, "thorough": 7200},
    required_counters=("inclusion_checks", "composition_steps_checked"),
)


def classify(o, ev, org):
    opn = refvm.OPNAME.get(org[1], "?") if org else "?"
    if ev[0] == "import":
        return f"import-lost:{opn}", f"reference VM imports {ev[1]}.{ev[2]} but the decompile does not"
    sig = refvm.shallow_sig(ev)
    dec = [e for e in o.dec_log.events if e[0] == ev[0]]
    if ev in dec:
        what = {"call": "call", "setstate": "__setstate__ call", "pers": "persistent_load call"}.get(ev[0], ev[0])
        return (f"call-multiplicity:{opn}",
                f"the reference VM performs this {what} more often than it occurs in the decompile")
    if ev[0] != "import":
        eev = refvm.erase_modules(ev)
        if any(refvm.erase_modules(d) == eev and d != ev for d in dec):
            if not de.same_import_sequence(o):
                return "call-on-wrong-module-and-import-sequence-differs", (
                    "a call's callee/arguments resolve to another module's attribute, and the decompile does not perform "
                    "the VM's imports one by one in the VM's order (an import was dropped or moved)")
            return "global-shadowed", ("the decompile refers to globals by bare name and the same attribute "
                                       "name is imported from two modules, so a call's callee/arguments "
                                       "resolve to the other module's attribute")
    for d in dec:
        if refvm.shallow_sig(d) != sig:
            continue
        fd = de.first_diff(ev, d)
        if fd is None:
            continue
        _, a, b = fd
        if (de._is_node(a) and de._is_node(b) and a[0] == b[0] and a[0] in ("list", "dict", "set")
                and len(a[1]) < len(b[1]) and tuple(b[1][:len(a[1])]) == tuple(a[1])):
            return (f"arg-shows-later-mutation:{a[0]}",
                    "a mutable container passed to a call is extended in place by a later opcode; the "
                    "decompiled call shows the later contents instead of the contents at call time")
    if any(refvm.shallow_sig(d) == sig for d in dec):
        return f"call-args-differ:{opn}", "call present in the decompile but with different arguments/state"
    what = {"call": "call", "setstate": "__setstate__ call", "pers": "persistent_load call"}[ev[0]]
    return f"call-lost:{opn}", f"{what} made by the reference VM at {opn} is absent from the decompile"


def oracle(ctx, label, data, o, names):
    agg = ctx.agg
    ch = h(data)
    nontrivial = bool(o.ref_ok and o.fick_ok and o.exec_err is None and (o.n_ref_calls or o.n_ref_imports))
    sample = None
    if nontrivial:
        sample = {"ops": names or o.ops, "decompile": o.src[:300],
                  "vm_events": [str(e)[:120] for e in o.ref_log.events[:4]]}
    if not agg.case(ch, nontrivial, sample):
        return
    if o.ref_ok and not o.fick_ok and o.parse_err is None and o.fick_stage in ("interpret", "unparse"):
        retry_after_refusal(ctx, label, data, o, names)
    if o.ref_ok and o.parse_err is None and (o.n_ref_calls or o.n_ref_imports) and (
            not o.fick_ok or not label.startswith(("exh", "rand")) or int(ch[:2], 16) % 4 == 0):
        other_decompile_paths(ctx, label, data, o, names)
    if o.ref_ok and o.fick_ok and o.exec_err is None and not o.missing and (
            not label.startswith(("exh", "rand")) or int(ch[:2], 16) % 8 == 1):
        composition(ctx, label, data, o, names)
    if not (o.ref_ok and o.fick_ok):
        return
    if o.exec_err is not None and not getattr(o, "ran_without_result", False):
        agg.count("skipped_exec_error(C05)")
        return
    agg.count("inclusion_checks")
    agg.count("vm_events_compared", len(o.ref_log.events))
    for e, org in zip(o.ref_log.events, o.ref_log.origin):
        agg.hist("vm_events", e[0] + "@" + (refvm.OPNAME.get(org[1], "?") if org else "?"))
    if o.missing:
        seen = set()
        for ev, org in o.missing:
            key, what = classify(o, ev, org)
            if de.name_not_nfkc_stable(o):
                key, what = "global-name-not-nfkc-stable", (
                    "a global whose module / attribute name changes under NFKC (fullwidth letters, decomposed accents, "
                    "ligatures, micro sign): read back as source text the decompile names the folded identifier")
            if de.scheme_name_collision(o):
                key, what = "global-name-captures-decompiler-variable", (
                    "a global whose attribute name is _varN / result / UNPICKLER is captured by the "
                    "decompiler's own variable of that name")
            if key in seen:
                continue
            seen.add(key)
            agg.violation(key, what, diffrun.witness(label, data, names, decompile=o.src[:600],
                                                     missing_event=str(ev)[:300]))
    # names outside ASCII: the decompile's import *nodes* name exactly what the VM imports (source text cannot be
    # trusted to say so: Python's parser NFKC-folds identifiers when it reads the text back)
    if o.module is not None:
        import ast as _ast
        named = [(refvm.norm_global(n.module or "", a.name)) for n in _ast.walk(o.module) if isinstance(n, _ast.ImportFrom) for a in n.names]
        for ev in o.ref_log.events:
            if ev[0] == "import" and not (ev[1] + ev[2]).isascii() and ev[1] != "builtins":
                agg.count("non_ascii_import_nodes_checked")
                if (ev[1], ev[2]) not in named:
                    agg.violation("import-node-names-another-global",
                                  f"the VM imports {ev[1]!r}.{ev[2]!r}; no import node of the decompile names exactly that "
                                  f"(nodes: {named[:4]})", diffrun.witness(label, data, names, decompile=o.src[:400]))
                    break
    # "refuse, don't drop": an opcode that changed the VM's state but left fickling's untouched
    if o.lock_div is not None and o.lock_div.get("fick_noop"):
        agg.violation(f"unmodelled-op-accepted:{o.lock_div['op']}",
                      "opcode changed the VM's stack/memo, was a no-op for fickling, and decompilation succeeded",
                      diffrun.witness(label, data, names, decompile=o.src[:600], lockstep=o.lock_div))


def retry_after_refusal(ctx, label, data, o, names):
    """A refusal must stay a refusal: asking the same parsed object again (after catching the error)
    must not yield a 'successful' decompile with the unmodelled operation left out."""
    import ast
    f = de.fickle()
    agg = ctx.agg
    agg.count("refusals_retried")
    p = f.Pickled.load(data)
    src = None
    for attempt in range(3):
        try:
            src = ast.unparse(p.ast)
            break
        except RecursionError:
            return
        except Exception:
            try:
                p.properties          # the other public way into the same interpretation
            except Exception:
                pass
            continue
    if src is None:
        return
    try:
        log, _val, _g = refvm.exec_decompiled(src)
        missing = refvm.missing_events(o.ref_log, log)
    except Exception:
        missing = [("exec-failed", None)]
    if missing:
        agg.violation("refusal-not-stable:decompiled-on-retry",
                      "decompilation first refused this pickle, then - asked again on the same object - returned a "
                      "program from which calls/imports of the VM are missing",
                      diffrun.witness(label, data, names, decompile=src[:600], missing_event=str(missing[0][0])[:200]))


def _text_blind(x):
    if isinstance(x, tuple):
        if len(x) == 3 and x[0] == "k" and x[1] in ("str", "bytes") and isinstance(x[2], str):
            return ("k", "text", x[2][1:] if x[1] == "bytes" and x[2][:1] == "b" else x[2])
        return tuple(_text_blind(y) for y in x)
    return x


def _order_blind(ev):
    if isinstance(ev, tuple) and ev and ev[0] == "call" and len(ev) >= 3 and isinstance(ev[2], tuple) and len(ev[2]) == 2 \
            and isinstance(ev[2][1], tuple):
        return (ev[0], ev[1], (ev[2][0], tuple(sorted(ev[2][1], key=repr)))) + tuple(ev[3:])
    return ev


def composition(ctx, label, data, o, names):
    """decompile -> inject -> decompile -> inject -> decompile on ONE object: after each edit the decompile of the
    object must contain what the VM does for the object's current bytes (the injected calls included)."""
    import ast
    f = de.fickle()
    agg = ctx.agg
    try:
        p = f.Pickled.load(data)
        if not len(p) or p[-1].info.name != "STOP":
            return
        p.ast
        steps = [lambda: p.insert_python("c1", module="vp_sink", attr="hit", run_first=True),
                 lambda: p.insert_python("c2", 2, module="vp_other", attr="hit", run_first=False),
                 lambda: p.append_python("c3", module="vp_sink", attr="ident", pop_result=True)]
        for si, step in enumerate(steps):
            step()
            src = ast.unparse(p.ast)
            p.properties
            vm, err = refvm.run_ref(p.dumps())
            if err is not None:
                return
            log, _val, _g = refvm.exec_decompiled(src)
            # opcodes built by the helpers keep text arguments in encoded form until the pickle is re-parsed, so the
            # decompile of an *edited* object shows b'c1' where the VM passes 'c1': text constants are compared by
            # their characters here (what is looked for is a lost call / import, C14 owns view-vs-fresh equality)
            vm.log.events = [_text_blind(e) for e in vm.log.events]
            log.events = [_text_blind(e) for e in log.events]
            missing = refvm.missing_events(vm.log, log)
            if missing:
                # arguments that come out of iterating a set (`f(*frozenset(...))`) have no defined order: a call that
                # differs only in the order of its arguments is the same call here; and a call that differs only in the
                # module of a same-named global is the recorded bare-name shadowing (vp_sink.hit / vp_other.hit /
                # K imported from two modules), not staleness.  Both are judged on the events as logged (the
                # module-erasing comparison needs the structured form, so it is made before the order-blind one).
                dec = list(log.events)
                dec_ob = {repr(_order_blind(d)) for d in dec}
                dec_erased = {repr(_order_blind(refvm.erase_modules(d))) for d in dec if d[0] != "import"}
                missing = [m for m in missing
                           if repr(_order_blind(m[0])) not in dec_ob
                           and not (m[0][0] != "import" and repr(_order_blind(refvm.erase_modules(m[0]))) in dec_erased)]
            agg.count("composition_steps_checked")
            if missing and not de.scheme_name_collision(o):
                ev = missing[0][0]
                agg.violation("stale-decompile-after-edit",
                              f"after injection #{si + 1} into an already decompiled object the decompile lacks an import/call "
                              f"the VM performs for the object's current bytes",
                              diffrun.witness(label, data, names, decompile=src[:600], missing_event=str(ev)[:300], step=si + 1))
                return
    except RecursionError:
        return
    except Exception as e:
        agg.hist("composition_raised", type(e).__name__)


def other_decompile_paths(ctx, label, data, o, names):
    """The tracer (`fickling --trace`) and a hand-driven Interpreter are decompilers too: whatever
    program they return must contain the VM's imports and calls, or they must refuse."""
    import ast
    import contextlib
    import io
    from fickling import tracing
    f = de.fickle()
    agg = ctx.agg
    for path in ("trace", "interpreter", "interpret-static", "stepped-by-hand", "after-safety-check", "tree-held-across-check"):
        try:
            interp = f.Interpreter(f.Pickled.load(data))
            if path in ("after-safety-check", "tree-held-across-check"):
                # the object's decompile read after (or held across) a safety check of the same object
                import fickling.analysis as analysis
                pk = f.Pickled.load(data)
                held = pk.ast if path == "tree-held-across-check" else None
                try:
                    analysis.check_safety(pk)
                    str(analysis.check_safety(pk))
                except RecursionError:
                    return
                except Exception:
                    pass
                mod = held if held is not None else pk.ast
            elif path == "trace":
                with contextlib.redirect_stdout(io.StringIO()):
                    mod = tracing.Trace(interp).run()
            elif path == "interpret-static":
                mod = f.Interpreter.interpret(f.Pickled.load(data))
            elif path == "stepped-by-hand":
                try:
                    while True:
                        interp.step()
                except StopIteration:
                    pass
                mod = interp.to_ast()
            else:
                mod = interp.to_ast()
            if mod is None:
                continue
            src = ast.unparse(mod)
        except RecursionError:
            return
        except Exception:
            agg.count(f"path_refused:{path}")
            continue
        agg.count(f"path_decompiled:{path}")
        if o.fick_ok and src == o.src:
            continue
        try:
            log, _val, _g = refvm.exec_decompiled(src)
        except Exception:
            if o.fick_ok:
                continue        # C05 reports programs that do not run
            log = None
        missing = [("exec-failed", None)] if log is None else refvm.missing_events(o.ref_log, log)
        if o.fick_ok and o.missing:      # already reported (and classified) for the default path
            base = [m[0] for m in o.missing]
            missing = [m for m in missing if m[0] not in base]
        if missing and not de.scheme_name_collision(o):
            agg.violation(f"path-drops-events:{path}",
                          f"decompilation through the {path} path returned a program from which imports/calls of the VM "
                          f"are missing" + ("" if o.fick_ok else " (the default path refuses this pickle)"),
                          diffrun.witness(label, data, names, decompile=src[:600], missing_event=str(missing[0][0])[:200],
                                          default_path="decompiled" if o.fick_ok else "refused"))
            return


def run_shard(ctx):
    diffrun.run(ctx, oracle, deep_need={"reduce", "obj", "inst", "newobj", "newobj_ex", "build", "binpersid"})


def replay(ctx, payload):
    diffrun.replay_case(ctx, payload, oracle)

"""C01 - Analysis is inert: inspecting a pickle never executes any part of it."""
import contextlib
import io
import os
import pickle

from vp import asm, effects, gen, workload
from vp.core import h

CONFIG = dict(
    level="exploration",
    rule=("inputs = natural pickles at all protocols + vocabulary programs naming every dangerous / canary / "
          "non-stdlib / builtin global through every global-resolving and call-making opcode with several "
          "fates + random assembler programs + the repository's three crash inputs, and byte-level "
          "corruptions (truncation, bit flips, opcode substitution, length inflation, splice, garbage) of "
          "all of them; plus argument-less instantiation through every call opcode, stdlib submodules whose "
          "parent package is not imported yet, computed operands (16 constant-call builders x 11 uses) and "
          "names that are str.format templates reaching a canary module; EXT1/2/4 opcodes with a populated copyreg extension registry; each input goes through every analysis entry point (parse, stacked parse, decompile, "
          "unparse, trace, safety check, likely-safe query, import/call summaries, CLI decompile / --trace / "
          "--check-safety, and a sequence of ten repeated inspections of the same bytes in one process; thorough adds format identification on a zip wrapping the input) while an audit "
          "hook installed before fickling was imported, canary modules, a logging meta-path finder, a "
          "pre-imported canary with logged attribute access, the sink log, sys.modules / directory deltas "
          "and a sys.monitoring CALL tripwire on fickling's own frames watch.  A case is one distinct "
          "(input bytes, entry point); non-trivial = the input (or the input it is a corruption of) names a "
          "dangerous, canary or sink global."),
    assumptions=[
        "effects are observable only through CPython audit events, canaries, the sink, the tripwire and "
        "file-system / sys.modules deltas (an attribute read on an already imported non-canary module that "
        "involves no call is invisible)",
        "import/open/listdir events count only when they mention a name taken from the input; writes count "
        "unless they target the declared JSON report",
        "lazy imports of fickling's own helpers are absorbed by a warm-up of every entry point",
    ],
    min_nontrivial={"quick": 3000, "thorough": 40000},
    nshards={"quick": 16, "thorough": 16},
    timeout={"quick": 900, "thorough": 5400},
    required_counters=("observations", "audit_events_seen", "tripwire_armed_calls"),
)

ENTRY_POINTS = ["parse", "stacked", "decompile", "unparse", "trace", "check_safety", "is_likely_safe",
                "summaries", "cli_decompile", "cli_trace", "cli_check_safety", "repeat", "nonseekable", "cli_stdin", "ml_env_active", "cli_tty"]

CRASH_INPUTS = [
    # test/test_crashes.py
    b"(cos\nsystem\nS'ls'\no.", b"(0N.", b"\x80\x04\x95\x0b\x00\x00\x00\x00\x00\x00\x00(K\x01K\x021N.",
]

VOCAB = gen.DANGEROUS + gen.NONSTD + [("ctypes", "CDLL"), ("ctypes.util", "find_library"),
                                      ("vp_loaded_canary", "attr"), ("vp_canary_0", "g"),
                                      ("builtins", "eval"), ("__builtin__", "exec"), ("builtins", "__import__"),
                                      ("builtins", "open"), ("builtins", "compile"), ("importlib", "import_module"),
                                      ("marshal", "loads"), ("pickle", "loads"), ("_pickle", "loads"),
                                      ("runpy", "run_path"), ("pty", "spawn"), ("webbrowser", "open"),
                                      ("vp_sink", "ident"), ("vp_other", "hit")] + gen.UNLOADED_STDLIB
ARGS = ["vp_marker_1 + 1", "echo vp_marker_2", "vp_canary_0", "/nonexistent/vp_marker_3"]


def inputs(ctx):
    """Yield (label, bytes, interesting) - the parent list; corruptions are added by the caller."""
    tier = ctx.tier
    for i, b in enumerate(CRASH_INPUTS):
        yield f"crash{i}", b, True
    fates = ["result", "pop", "dup", "memo_reused", "in_list", "build_target", "under_result"]
    rng = asm.rng_for(ctx.seed, "c01voc")
    for (m, n) in VOCAB:
        for r in ("GLOBAL", "STACK_GLOBAL"):
            g = gen.push_global(r, m, n)
            yield f"voc-import-{r}", g + b".", True
            yield f"voc-import-{r}-pop", g + b"0N.", True
        # argument-less instantiation (OBJ / INST / REDUCE / NEWOBJ with no arguments) takes its own paths in
        # the pickle VM (cls() vs cls.__new__(cls)), so an interpreter may be tempted to look the class up
        for r in gen.RESOLVE_OPS:
            for c in gen.CALL_OPS:
                call0 = gen.make_call(r, c, m, n, [])
                if call0 is not None:
                    yield f"voc-call0-{r}-{c}", call0 + b".", True
                    yield f"voc-call0-{r}-{c}-pop", gen.frame(call0 + b"0N.", "proto2"), True
        for r in gen.RESOLVE_OPS + ["GLOBAL-memo-collide", "STACK_GLOBAL-via-memo"]:
            for c in gen.CALL_OPS:
                call = gen.make_call(r, c, m, n, [rng.choice(ARGS)])
                if call is None:
                    continue
                fl = fates if tier == "thorough" else rng.sample(fates, 2)
                for fate in fl:
                    fr = rng.choice(gen.FRAMINGS) if tier == "quick" else None
                    for framing in ([fr] if fr else ["none", "proto2", "proto4frame"]):
                        yield f"voc-call-{r}-{c}-{fate}-{framing}", gen.frame(gen.apply_fate(call, fate), framing), True
    # a well-formed dangerous prefix followed by something a symbolic interpreter cannot run (memo slot never
    # written, pop from an empty stack, persistent id, batch opcode on a non-container, missing operand): the
    # inspection raises half-way - what it leaves behind is what the next inspection of the same bytes meets
    poison = [b"h\x07", b"g99\n", b"j\x00\x01\x00\x00", b"000", b"1", b"Ppid\n", b"K\x01Q", b"K\x01a", b"(K\x01e", b"K\x01K\x02s",
              b"(K\x01K\x02u", b"\x90", b"b", b"\x81", b"\x92", b"R", b"\x93", b"\x82\x01", b"2\x85\x85R"]
    for (m, n) in VOCAB:
        picks = poison if tier == "thorough" else rng.sample(poison, 4)
        for r in ("GLOBAL", "STACK_GLOBAL", "INST"):
            call = gen.make_call(r, "INST" if r == "INST" else "REDUCE", m, n, [rng.choice(ARGS)])
            if call is None:
                continue
            for sfx in picks:
                yield f"poisoned-suffix-{r}", call + sfx + b".", True
                if tier == "thorough":
                    yield f"poisoned-suffix-{r}-proto4", gen.frame(call + sfx + b".", "proto4"), True
    # extension opcodes: the input picks a number, the process-wide copyreg registry says which global it means
    for (m, n, code) in EXTENSIONS + [("unregistered", "x", 77), ("unregistered", "y", 0x4444)]:
        op = (b"\x82" + bytes([code])) if code < 0x100 else (b"\x83" + code.to_bytes(2, "little")) if code < 0x10000 \
            else (b"\x84" + code.to_bytes(4, "little"))
        for body in (op + b".", op + b"0N.", op + b")R.", op + b"(S'vp_marker_8'\ntR.", b"(" + op + b"S'echo vp_marker_9'\no.",
                     op + b")\x81.", b"]" + op + b"a.", op + b"}b."):
            for framing in ("none", "proto2", "proto4"):
                yield f"ext-opcode-{framing}", gen.frame(body, framing), True
    # container files (what model checkpoints are): tar / zip archives whose member names point elsewhere and whose
    # members are pickles - handing one to an entry point that expects a pickle is a refusal, not an unpacking job
    import tarfile
    import zipfile
    payload = b"cos\nsystem\n(S'echo vp_marker_10'\ntR."
    for style in ("tar", "tar-legacy-torch", "zip", "zip-torch"):
        buf = io.BytesIO()
        members = [("pickle", payload), ("../vp_canary_escape.txt", b"escaped"), ("/tmp/vp_canary_abs_escape.txt", b"escaped"),
                   ("storages", b""), ("archive/data.pkl", payload), ("archive/version", b"3\n"), ("vp_canary_0.py", b"x = 1\n")]
        if style.startswith("tar"):
            with tarfile.open(fileobj=buf, mode="w:") as t:
                for name, body in members:
                    if style == "tar-legacy-torch" and name.startswith(("archive", "/")):
                        continue
                    ti = tarfile.TarInfo(name)
                    ti.size = len(body)
                    t.addfile(ti, io.BytesIO(body))
        else:
            with zipfile.ZipFile(buf, "w") as z:
                for name, body in members:
                    if style == "zip-torch" and not name.startswith("archive"):
                        continue
                    z.writestr(name, body)
        yield f"container-{style}", buf.getvalue(), True
    # size: inputs of several MiB (one huge constant next to a dangerous global) - buffers that spill to disk, chunked readers
    for mib in (5, 9):
        blob = b"B" + (mib << 20).to_bytes(4, "little") + b"\x00" * (mib << 20)
        yield f"huge-constant-{mib}MiB", b"cos\nsystem\n(" + blob + b"tR.", True
        yield f"huge-constant-{mib}MiB-benign", b"\x80\x02" + blob + b".", True
    # names that are str.format / %-templates: a report built by formatting text that already contains the
    # pickle's names resolves the replacement fields against live objects (attribute and item look-ups)
    roots = ["0", "trigger", "severity", "self", "node", "shortened", "message", "result", "context", "pickled",
             "analysis", "module", "name"]
    for root in roots:
        for path in (".__init__.__globals__[sys].modules[vp_loaded_canary].probe",
                     ".__class__.__init__.__globals__[sys].modules[vp_loaded_canary].probe",
                     ".__class__.__mro__[1].__subclasses__"):
            tpl = "{" + root + path + "}"
            for (m, n) in (("os", tpl), (tpl, "system"), ("vp_sink", tpl), ("torch.hub", tpl)):
                for r in ("GLOBAL", "STACK_GLOBAL"):
                    if " " in m or " " in n:
                        continue
                    g = gen.push_global(r, m, n)
                    yield f"template-{r}", g + b".", True
                    yield f"template-{r}-call", g + b"(K\x01tR.", True
    # computed operands: the value an opcode needs (module / attribute string of STACK_GLOBAL, a callee, a
    # state, a persistent id ...) is itself the result of a call on constants - an interpreter that
    # "resolves" such calls to report better names would execute input-chosen callables (codec lookups
    # import encodings.<name>, __import__ imports, eval evaluates)
    builders = [("_codecs", "decode", [b"os", "vp_canary_0"]), ("_codecs", "encode", ["os", "vp_canary_0"]),
                ("builtins", "str", [b"getpid", "vp_canary_0"]), ("builtins", "bytes", ["os", "vp_canary_0"]),
                ("codecs", "decode", [b"os", "vp_canary_0"]), ("builtins", "__import__", ["vp_canary_0"]),
                ("importlib", "import_module", ["vp_canary_1.sub"]), ("builtins", "getattr", ["vp_canary_0", "f"]),
                ("builtins", "eval", ["vp_marker_6"]), ("base64", "b64decode", [b"dnBfY2FuYXJ5XzA="]),
                ("builtins", "format", ["vp_canary_0", "s"]), ("operator", "concat", ["vp_can", "ary_0"]),
                ("marshal", "loads", [b"\xda\x0bvp_canary_0"]), ("pickle", "loads", [b"cvp_canary_0\nf\n."]),
                ("builtins", "compile", ["vp_marker_7", "vp_canary_0", "eval"]), ("builtins", "open", ["vp_canary_0"])]
    for (m, n, args) in builders:
        for r in ("GLOBAL", "STACK_GLOBAL"):
            call = gen.make_call(r, "REDUCE", m, n, args)
            uses = {
                "as-module": call + gen._sbu("getpid") + b"\x93.",
                "as-module-called": call + gen._sbu("getpid") + b"\x93)R.",
                "as-name": gen._sbu("os") + call + b"\x93.",
                "as-both": call + call + b"\x93)R.",
                "as-callee": call + b")R.",
                "as-arg": b"cvp_sink\nident\n(" + call + b"tR.",
                "as-state": b"cvp_sink\nK\n)\x81" + call + b"b.",
                "as-persid": call + b"Q.",
                "as-newobj-class": call + b")\x81.",
                "as-dict-key": b"}" + call + b"K\x01s.",
                "as-inst-arg": b"(" + call + b"ivp_sink\nK\n.",
            }
            for uname, data in uses.items():
                for framing in (["none", "proto4"] if tier == "quick" else ["none", "proto2", "proto4", "proto4frame"]):
                    yield f"computed-{uname}-{r}-{framing}", gen.frame(data, framing), True
    # payloads whose *data* is a nested pickle / python source / marshal blob
    inner = b"cos\nsystem\n(S'echo vp_marker_4'\ntR."
    import marshal
    code = marshal.dumps(compile("vp_marker_5 = __import__('vp_canary_0')", "<vp>", "exec"))
    for blob in (inner, code, b"import vp_canary_0\n"):
        yield "data-blob", pickle.dumps(blob, 2), True
        yield "data-blob-list", pickle.dumps([blob, blob.decode("latin-1")], 4), True
    # decompilations longer than a terminal screen (what a pager would be offered)
    yield "long-decompile-sink", b"".join(b"cvp_sink\nhit\n(K" + bytes([i]) + b"tR0" for i in range(60)) + b"N.", True
    yield "long-decompile-marker", b"".join(b"cos\nsystem\n(S'echo vp_marker_4'\ntR0" for i in range(45)) + b"N.", True
    yield "long-decompile-benign", b"".join(b"ccollections\nOrderedDict\n)R0" for i in range(50)) + b"N.", True
    nval = {"quick": 40, "thorough": 600}[tier]
    for v in workload.values(ctx.seed, nval):
        for label, data in gen.natural_pickles(v):
            yield "nat-" + label, data, b"vp_sink" in data
    nr = {"quick": 300, "thorough": 6000}[tier]
    for i in range(nr):
        prog = asm.random_program(asm.rng_for(ctx.seed, f"c01r{i}"), max_len=25)
        data = asm.assemble(prog)
        yield "rand", data, b"os\n" in data or b"vp_" in data or b"exec" in data


def make_runner(mods, ctx, data, ep, paths):
    f, analysis, tracing, cli, fickling = mods
    inp, rep = paths

    def cli_run(argv):
        out, err = io.StringIO(), io.StringIO()
        with contextlib.redirect_stdout(out), contextlib.redirect_stderr(err):
            return cli.main(argv)

    def quiet(fn):
        def run():
            with contextlib.redirect_stdout(io.StringIO()), contextlib.redirect_stderr(io.StringIO()):
                return fn()
        return run

    if ep == "parse":
        return lambda: f.Pickled.load(data)
    if ep == "stacked":
        return lambda: f.StackedPickle.load(data)
    if ep == "decompile":
        return lambda: f.Pickled.load(data).ast
    if ep == "unparse":
        import ast
        return lambda: ast.unparse(f.Pickled.load(data).ast)
    if ep == "trace":
        return quiet(lambda: tracing.Trace(f.Interpreter(f.Pickled.load(data))).run())
    if ep == "check_safety":
        return lambda: analysis.check_safety(f.Pickled.load(data)).severity
    if ep == "is_likely_safe":
        return lambda: fickling.is_likely_safe(inp)
    if ep == "summaries":
        def go():
            p = f.Pickled.load(data)
            return (p.has_import, p.has_call, p.has_non_setstate_call, list(p.unsafe_imports()),
                    list(p.non_standard_imports()), p.properties.likely_safe_imports)
        return go
    if ep == "cli_decompile":
        return lambda: cli_run(["fickling", inp])
    if ep == "cli_trace":
        return lambda: cli_run(["fickling", "--trace", inp])
    if ep == "cli_check_safety":
        return lambda: cli_run(["fickling", "--check-safety", "--json-output", rep, "--print-results", inp])
    if ep in ("nonseekable", "cli_stdin"):
        class Raw(io.RawIOBase):                     # what a pipe / socket looks like: readable, not seekable
            def __init__(self, b):
                self._b = io.BytesIO(b)

            def readable(self):
                return True

            def seekable(self):
                return False

            def readinto(self, buf):
                return self._b.readinto(buf)
        if ep == "nonseekable":
            def go():
                out = []
                for fn in (lambda: f.Pickled.load(Raw(data)), lambda: f.StackedPickle.load(Raw(data)),
                           lambda: analysis.check_safety(f.Pickled.load(io.BufferedReader(Raw(data)))).severity):
                    try:
                        out.append(fn())
                    except RecursionError:
                        out.append("RecursionError")
                    except Exception as e:
                        out.append(type(e).__name__)
                return len(out)
            return go

        def go_cli():
            import sys
            old = sys.stdin
            sys.stdin = io.TextIOWrapper(io.BufferedReader(Raw(data)), encoding="latin-1")
            try:
                return cli_run(["fickling", "-"]), cli_run(["fickling"])
            finally:
                sys.stdin = old
        return go_cli
    if ep == "cli_tty":
        # the command line used interactively: standard input and output are a terminal (a pseudo-terminal pair whose
        # other end is drained by a thread), TERM names a capable one; decompile and trace of the file
        import sys
        import threading
        master, slave = os.openpty()

        def drain():
            try:
                while os.read(master, 65536):
                    pass
            except OSError:
                pass
        threading.Thread(target=drain, daemon=True, name="vp-pty-drain").start()
        out = os.fdopen(os.dup(slave), "w", encoding="utf-8", errors="replace")
        inn = os.fdopen(os.dup(slave), "r", encoding="utf-8", errors="replace")

        def go_tty():
            old = (sys.stdout, sys.stdin)
            sys.stdout, sys.stdin = out, inn
            errs = []
            try:
                for argv in (["fickling", inp], ["fickling", "--trace", inp]):
                    try:
                        with contextlib.redirect_stderr(io.StringIO()):
                            errs.append(cli.main(argv))
                    except RecursionError:
                        errs.append("RecursionError")
                    except Exception as e:
                        errs.append(type(e).__name__)
                return errs
            finally:
                sys.stdout, sys.stdin = old[0], old[1]
                for fh in (out, inn):
                    try:
                        fh.close()
                    except OSError:
                        pass
                os.close(slave)
                os.close(master)
        return go_tty
    if ep == "ml_env_active":
        # the same inspections while the safe ML environment is armed, its additions naming what the input names
        import fickling.hook as hook
        adds = ["vp_canary_0.g", "vp_canary_1.sub.f", "vp_loaded_canary.attr", "vp_sink.hit", "os.system", "argparse.Namespace",
                "wsgiref.util.FileWrapper", "xmlrpc.client.ServerProxy"]

        def go_ml():
            import pickle as _p
            import _pickle as _cp
            saved = (_p.load, _p.loads, _cp.load, _cp.loads)
            hook.activate_safe_ml_environment(also_allow=adds)
            errs = []
            try:
                for fn in (lambda: analysis.check_safety(f.Pickled.load(data)).severity, lambda: fickling.is_likely_safe(inp),
                           lambda: f.Pickled.load(data).ast, lambda: cli_run(["fickling", "--check-safety", "--json-output", rep, inp])):
                    try:
                        with contextlib.redirect_stdout(io.StringIO()), contextlib.redirect_stderr(io.StringIO()):
                            fn()
                    except RecursionError:
                        errs.append("RecursionError")
                    except Exception as e:
                        errs.append(type(e).__name__)
            finally:
                hook.remove_hook()
                _p.load, _p.loads, _cp.load, _cp.loads = saved
            return errs
        return go_ml
    if ep == "repeat":
        # the same bytes inspected again and again in one process (each inspection may raise): whatever an earlier,
        # possibly failed, inspection left behind must not make a later one execute anything
        seq = ["check_safety", "check_safety", "is_likely_safe", "decompile", "summaries", "cli_check_safety",
               "trace", "check_safety", "cli_decompile", "is_likely_safe"]
        runners = [make_runner(mods, ctx, data, e, paths) for e in seq]

        def go():
            errs = []
            for r in runners:
                try:
                    with contextlib.redirect_stdout(io.StringIO()), contextlib.redirect_stderr(io.StringIO()):
                        r()
                except RecursionError:
                    errs.append("RecursionError")
                except Exception as e:
                    errs.append(type(e).__name__)
            return errs
        return go
    if ep == "identify_format":
        from fickling import polyglot
        return quiet(lambda: polyglot.identify_pytorch_file_format(inp))
    if ep == "wrapper_pickled":
        from fickling.pytorch import PyTorchModelWrapper
        return quiet(lambda: PyTorchModelWrapper(inp, force=True).pickled)
    raise ValueError(ep)


def observe_case(ctx, mods, watch, label, data, ep, interesting, parent_tokens=frozenset()):
    agg = ctx.agg
    key = h(ep.encode() + b"|" + data)
    if not agg.case(key, interesting, {"label": label, "entry_point": ep, "hex": data[:60].hex(), "len": len(data)}):
        return
    inp = os.path.join(ctx.scratch, "c01_input.bin")
    rep = os.path.join(ctx.scratch, "c01_report.json")
    if ep in ("identify_format", "wrapper_pickled"):
        import zipfile
        with zipfile.ZipFile(inp, "w") as z:
            z.writestr("archive/data.pkl", data)
            z.writestr("archive/version", b"3\n")
    else:
        with open(inp, "wb") as fh:
            fh.write(data)
    tokens = effects.tokens_of(data) | parent_tokens
    tokens -= {"fickling", "c01_input", "c01_report", "bin", "json"}
    try:
        outcome, obs = watch.observe(make_runner(mods, ctx, data, ep, (inp, rep)), tokens)
    finally:
        pass
    agg.count("observations")
    agg.count("audit_events_seen", len(obs["events"]))
    agg.count("tripwire_armed_calls", 1)
    agg.hist("outcomes", outcome[0] + (":" + type(outcome[1]).__name__ if outcome[0] == "exc" else ""))
    for name, _s in obs["events"]:
        agg.hist("audit_event_kinds", name)
    found = effects.classify(obs, declared_outputs=(rep, inp) if ep in ("cli_check_safety", "repeat", "ml_env_active") else ())
    # the harness wrote the input file itself before the marks; the report is the one declared output
    for k, what in found:
        agg.violation(f"{k}@{ep}", what, {"label": label, "hex": data.hex() if len(data) < 3000 else data[:3000].hex(),
                                        "entry_point": ep, "outcome": repr(outcome[1])[:200]})
    for pth in (inp, rep):
        if os.path.exists(pth):
            os.remove(pth)


# process-wide copyreg extension registry: the EXT1/EXT2/EXT4 opcodes select an entry by number
EXTENSIONS = [("vp_canary_0", "g", 1), ("vp_canary_1.sub", "f", 2), ("vp_loaded_canary", "attr", 3), ("os", "system", 4),
              ("subprocess", "Popen", 5), ("builtins", "eval", 240), ("vp_canary_0", "h", 0x0123), ("os", "popen", 0x7001),
              ("vp_canary_0", "k", 0x00012345), ("builtins", "exec", 0x7FFFFFF0)]


def register_extensions():
    import copyreg
    for m, n, code in EXTENSIONS:
        if (m, n) not in copyreg._extension_registry:
            copyreg.add_extension(m, n, code)


def setup(ctx):
    register_extensions()
    os.environ["TERM"] = "xterm"        # for the cli_tty entry point: a capable terminal, as in interactive use
    import fickling
    import fickling.fickle as f
    import fickling.analysis as analysis
    from fickling import tracing
    import fickling.cli as cli
    watch = effects.EffectWatch(ctx.scratch, os.environ.get("VERIF_REPO", "/repo"), answering_environ=True)
    mods = (f, analysis, tracing, cli, fickling)
    # warm-up: every entry point on benign inputs, so lazy imports (codecs, locale, stdlib list) are done
    warm = [pickle.dumps(v, p) for p in range(6) for v in ([1, "é", b"b", 2.5, {"k": (1,)}, {3}], "text\n")]
    warm += [asm.assemble(prog) for _, prog in workload.per_opcode_programs()]
    eps = list(ENTRY_POINTS)
    for data in warm:
        for ep in eps:
            inp = os.path.join(ctx.scratch, "c01_input.bin")
            rep = os.path.join(ctx.scratch, "c01_report.json")
            with open(inp, "wb") as fh:
                fh.write(data)
            try:
                with contextlib.redirect_stdout(io.StringIO()), contextlib.redirect_stderr(io.StringIO()):
                    make_runner(mods, ctx, data, ep, (inp, rep))()
            except BaseException:
                pass
            for pth in (inp, rep):
                if os.path.exists(pth):
                    os.remove(pth)
    return mods, watch


def run_shard(ctx):
    mods, watch = setup(ctx)
    import sys
    ctx.agg.notes.append({"vocabulary_modules_not_preloaded": sorted({m for m, _ in VOCAB if m not in sys.modules})})
    eps = list(ENTRY_POINTS)
    if ctx.tier == "thorough":
        try:
            import fickling.polyglot  # noqa: F401  (needs torch)
            import fickling.pytorch  # noqa: F401
            eps += ["identify_format", "wrapper_pickled"]
            # warm-up for the two extras
            for ep in ("identify_format", "wrapper_pickled"):
                observe_case(ctx, mods, watch, "warmup", pickle.dumps([1, 2], 2), ep, False)
            ctx.agg.violations.clear()
        except Exception as e:
            ctx.agg.notes.append({"torch_extras_unavailable": repr(e)[:200]})
    ncorr = {"quick": 4, "thorough": 10}[ctx.tier]
    for idx, (label, data, interesting) in enumerate(inputs(ctx)):
        variants = [(label, data)]
        rng = asm.rng_for(ctx.seed, f"c01c{idx}")
        ptoks = effects.tokens_of(data) if interesting else frozenset()
        big = len(data) > 30000
        for cname, cd in gen.corruptions(data, rng, budget=1 if big else ncorr):
            variants.append((label + "~" + cname, cd))
        for vi, (vl, vd) in enumerate(variants):
            for ep in eps:
                if big and ep in ("trace", "cli_trace", "repeat", "unparse", "stacked", "cli_tty") and len(vd) < (1 << 20):
                    continue
                if len(vd) >= (1 << 20) and ep not in ("parse", "nonseekable", "cli_stdin", "check_safety", "is_likely_safe", "cli_decompile"):
                    continue        # tracing copies the memo per opcode (quadratic); the others repeat what decompile / check do
                k = h(ep.encode() + b"|" + vd)
                if not ctx.mine(k):
                    continue
                observe_case(ctx, mods, watch, vl, vd, ep, interesting, ptoks if vi else frozenset())
    if watch.environ is not None:
        ctx.agg.notes.append({"environment_variables_the_library_asked_for": sorted(set(watch.environ.asked))[:20]})


def replay(ctx, payload):
    mods, watch = setup(ctx)
    c = payload["case"]
    observe_case(ctx, mods, watch, c.get("label", "replay"), bytes.fromhex(c["hex"]), c["entry_point"], True)

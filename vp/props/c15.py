"""C15 - Injected constants and constructed opcodes mean what was asked, or are refused."""
import contextlib
import io
import os
import pickle
import pickletools
import _pickle

from vp import asm, gen
from vp.core import h

ORIG_LOADS = _pickle.loads

CONFIG = dict(
    level="exploration",
    rule=("(a) values from a boundary-biased generator (0, +-1, 2^8+-1, 2^16+-1, 2^31+-1, 2^63+-1, 2^200; floats "
          "incl. -0.0, inf, non-integral; booleans; text over ASCII / Latin-1 / BMP / astral / control / "
          "quotes / backslashes / newlines / digits-only; bytes likewise; lists and dicts of these nested to "
          "depth 3) are handed to every helper that takes constants (insert_python first/last, append_python, "
          "insert_function_call_on_unpickled_object(constant_args), insert_python_obj, ConstantOpcode.new, CLI "
          "--create and --inject); the built pickle is loaded by the stock unpickler with vp_sink.hit / "
          "vp_sink.ident as callee and the received argument must be an equal value of the same type, or the "
          "build must have raised; list/dict values are also delivered as a history on one object: a call refused because "
          "of one element, the same container repaired and changed in place, a second call.  (b) every opcode class fickling can construct x representative arguments "
          "(valid, boundary, wrong type): encode() either raises or pickletools reads it back as that opcode "
          "with that argument.  A case is one distinct (helper, repr(value)) or (opcode class, repr(arg)); "
          "non-trivial = the value is not a small ASCII string / small non-negative int."),
    assumptions=[
        "the stock C unpickler and pickletools.genops are the judges of what the bytes mean",
        "any exception while building or encoding is a refusal and fine",
        "floats are compared by repr, everything else by type and ==",
    ],
    min_nontrivial={"quick": 800, "thorough": 4000},
    nshards={"quick": 8, "thorough": 16},
    timeout={"quick": 600, "thorough": 3600},
    required_counters=("opcode_patches_checked", "retries_checked", "compositions_checked", "values_delivered_or_refused", "opcode_encodings_checked"),
)


def ckey(v):
    t = type(v)
    if t is float:
        return ("float", repr(v))
    if t is list:
        return ("list", tuple(ckey(x) for x in v))
    if t is tuple:
        return ("tuple", tuple(ckey(x) for x in v))
    if t is dict:
        return ("dict", tuple((ckey(k), ckey(x)) for k, x in v.items()))
    return (t.__name__, repr(v))


def kind(v):
    t = type(v)
    if t is str:
        if v.isdigit() or (v[:1] == "-" and v[1:].isdigit()):
            return "str-numeric"
        return "str-nonascii" if any(ord(c) > 127 for c in v) else ("str-control" if any(ord(c) < 32 for c in v) else "str")
    if t is bytes:
        return "bytes-numeric" if v.isdigit() else "bytes"
    if t is int:
        return "int-neg" if v < 0 else ("int-big" if v > 65535 else "int")
    return t.__name__


def values(ctx):
    out = []
    out += gen.INTS + [2**16 - 1, 2**16, 2**16 + 1, 2**32, -2**32, 10**30] + gen.WIDE_INTS + [[w, -w] for w in gen.WIDE_INTS[:2]]
    out += gen.FLOATS + [3.0, -7.0, 1e16, 0.1]
    out += [True, False]
    out += [s for s in gen.STRS if s != "\ud800"] + ["0", "007", "1e3", "١٢٣", "１２", " 42 ", "4_2", "0b11", "True", "None"]
    out += gen.BYTESES + [b"0", b"007", b" 42 ", b"12", b"-5"]
    out += [None]
    out += ["é" * 127, "é" * 128, "é" * 255, "€" * 85, "€" * 86, "x" * 65535, "x" * 65536, "\U0001f600" * 64,
            b"b" * 65535, b"b" * 65536, b"\xff" * 255, b"\xff" * 256, b"\x80" * 300]
    out += [list(range(255)), list(range(256)), {str(i): i for i in range(256)}, ["é" * 130, b"\xff" * 300],
            {"k" * 255: "v" * 256}, [[], {}, [[]], ""], [0, -1, 255, 256, 65535, 65536, 2**31, -2**31 - 1]]
    nested = [[1, "a"], ["123", b"45", 1.5, True], {"k": [1, 2]}, {"1": "2"}, {"n": {"m": ["x", {"y": -1}]}}, [],
              {}, [[]], [[["deep", 2**70]]], {"f": 0.5, "b": b"\x00"}, [-1, -2**40], ["é", "\n"], {"é": "\\"},
              (1, 2), {1: 2}, {b"k": 1}]
    out += nested
    rng = asm.rng_for(ctx.seed, "c15v")
    n = {"quick": 60, "thorough": 3000}[ctx.tier]
    g = gen.ValueGen(rng, plain_only=True, max_depth=3)
    for _ in range(n):
        v = g.scalar() if rng.random() < 0.6 else _jsonish(g, rng, 0)
        out.append(v)
    return out


def _jsonish(g, rng, d):
    if d >= 3 or rng.random() < 0.3:
        return g.scalar()
    if rng.random() < 0.5:
        return [_jsonish(g, rng, d + 1) for _ in range(rng.randint(0, 3))]
    return {rng.choice(["a", "1", "é", "k k", ""]) + str(i): _jsonish(g, rng, d + 1) for i in range(rng.randint(0, 3))}


BASE = pickle.dumps(["base"], 2)

HELPERS = ["insert_python_first", "insert_python_last", "append_python", "insert_fn_constant_args",
           "insert_python_obj", "constant_new"]


def base_for(f, helper):
    if helper in ("insert_python_obj", "constant_new"):
        return f.Pickled.load(b"cvp_sink\nhit\n(" + b"\x8c\x03tag" + b"tR.")
    return f.Pickled.load(BASE)


def apply_helper(f, p, helper, v):
    if helper == "insert_python_first":
        p.insert_python("tag", v, module="vp_sink", attr="hit", run_first=True)
    elif helper == "insert_python_last":
        p.insert_python("tag", v, module="vp_sink", attr="hit", run_first=False)
    elif helper == "append_python":
        p.append_python("tag", v, module="vp_sink", attr="hit", pop_result=True)
    elif helper == "insert_fn_constant_args":
        p.insert_function_call_on_unpickled_object(
            "def vpc15(obj, *a):\n    import vp_sink\n    vp_sink.hit('tag', *a)\n    return obj\n", constant_args=[v])
    elif helper == "insert_python_obj":
        # place v as second argument: before the first TUPLE
        idx = [i for i, op in enumerate(p) if op.info.name == "TUPLE"][0]
        p.insert_python_obj(idx, v)
    elif helper == "constant_new":
        idx = [i for i, op in enumerate(p) if op.info.name == "TUPLE"][0]
        p.insert(idx, f.ConstantOpcode.new(v))
    else:
        raise ValueError(helper)


def deliver(f, helper, v):
    """Build a pickle that hands v to a sink; returns bytes.  Raises = refusal."""
    p = base_for(f, helper)
    apply_helper(f, p, helper, v)
    return p.dumps()


def _containers(v, out=None):
    out = [] if out is None else out
    if isinstance(v, list):
        out.append(v)
        for x in v:
            _containers(x, out)
    elif isinstance(v, dict):
        out.append(v)
        for x in v.values():
            _containers(x, out)
    return out


def check_composition(ctx, f, v, variant):
    """Several injections into ONE object, with an edit in front of the earlier payload in between: every injected
    call still receives exactly what was handed to its helper."""
    import vp_sink
    agg = ctx.agg
    key = h(("compose|%d|" % variant + repr(ckey(v))).encode("utf-8", "surrogatepass"))
    if not agg.case(key, True, {"helper": "composition-%d" % variant, "value": repr(v)[:80], "kind": "compose:" + kind(v)}):
        return
    w = {"helper": "composition-%d" % variant, "value_repr": repr(v)[:400], "kind": "compose:" + kind(v)}
    want = []
    try:
        p = f.Pickled.load(BASE)
        p.insert_python("t1", v, module="vp_sink", attr="hit", run_first=True)
        want.append(("t1", v))
        if variant == 0:
            p.insert_python("mid", 5, module="vp_sink", attr="hit", run_first=False)
            want.append(("mid", 5))
        elif variant == 1:
            p.insert_magic_int(4242, index=0)
        elif variant == 2:
            n = p.insert_python_obj(0, ["junk", {"k": 1}])
            p.insert(n, f.Pop())
        elif variant == 3:
            p.insert_python("res", 1, module="vp_sink", attr="hit", run_first=True, use_output_as_unpickle_result=True)
            want.append(("res", 1))
        p.ast                                   # a read in between
        p.insert_python("t2", v, "end", module="vp_sink", attr="hit", run_first=True)
        want.append(("t2", v, "end"))
        if variant % 2 == 0:
            p.insert_python("t3", [v, v], module="vp_sink", attr="hit", run_first=True)
            want.append(("t3", [v, v]))
        data = p.dumps()
    except RecursionError:
        return
    except Exception as e:
        agg.hist("refusals", f"compose:{kind(v)}:{type(e).__name__}")
        return
    w["hex"] = data.hex()[:1600]
    del vp_sink.LOG[:]
    try:
        ORIG_LOADS(data)
    except Exception as e:
        del vp_sink.LOG[:]
        agg.violation("composition-built-pickle-does-not-load",
                      f"three helper calls on one object built a pickle the stock unpickler rejects: {type(e).__name__}: {str(e)[:100]}", w)
        return
    got = [e[1] for e in vp_sink.LOG if e[0] == "hit"]
    del vp_sink.LOG[:]
    agg.count("compositions_checked")
    if sorted(ckey(list(x)) for x in got) != sorted(ckey(list(x)) for x in want):
        agg.violation("composition-silently-altered",
                      f"injected calls received {got!r}, the helpers were handed {want!r}"[:500], dict(w, received=repr(got)[:400]))


def check_retry(ctx, f, helper, v):
    """History on one Pickled object and one (mutable) argument object: a call that is refused because of
    one element, the caller repairs the *same* container in place and changes other contents, calls again.
    What arrives must be the value as it was at the second call."""
    import copy
    agg = ctx.agg
    if not isinstance(v, (list, dict)):
        return
    key = h(("retry|" + helper + "|" + repr(ckey(v))).encode("utf-8", "surrogatepass"))
    if not agg.case(key, True, {"helper": helper, "value": repr(v)[:80], "kind": "retry:" + kind(v)}):
        return
    w1 = copy.deepcopy(v)
    if isinstance(w1, list):
        w1.append({1, 2})
    else:
        w1["vp-bad"] = {1, 2}
    p = base_for(f, helper)
    w = {"helper": helper, "value_repr": repr(v)[:400], "kind": "retry:" + kind(v)}
    try:
        apply_helper(f, p, helper, w1)
        agg.count("retry_first_call_not_refused")
        return
    except RecursionError:
        return
    except Exception:
        pass
    # repair in place, and change what the nested containers hold
    if isinstance(w1, list):
        w1.pop()
    else:
        del w1["vp-bad"]
    for c in _containers(w1):
        if isinstance(c, list):
            c.append("changed-before-retry")
        else:
            c["changed-before-retry"] = 1
    want = copy.deepcopy(w1)
    try:
        apply_helper(f, p, helper, w1)
        data = p.dumps()
    except RecursionError:
        return
    except Exception as e:
        agg.hist("refusals", f"retry:{kind(v)}:{type(e).__name__}")
        return
    w["hex"] = data.hex()[:1200]
    try:
        hits = load_and_get(data)
    except Exception as e:
        agg.violation(f"retry-built-pickle-does-not-load:{helper}",
                      f"after a refused call the repaired call built a pickle the stock unpickler rejects: {type(e).__name__}: {str(e)[:100]}", w)
        return
    agg.count("retries_checked")
    if len(hits) != 1 or len(hits[0][1]) != 2:
        agg.violation(f"retry-argument-not-delivered:{helper}", f"sink received {hits!r}"[:300], w)
        return
    got = hits[0][1][1]
    if ckey(got) != ckey(want):
        agg.violation(f"retry-silently-altered:{helper}",
                      f"refused call, container repaired and changed in place, second call: asked to pass {want!r}, "
                      f"the unpickling process received {got!r}"[:400], dict(w, received=repr(got)[:300]))


def load_and_get(data):
    import vp_sink
    del vp_sink.LOG[:]
    ORIG_LOADS(data)
    hits = [e for e in vp_sink.LOG if e[0] == "hit" and e[1][:1] == ("tag",)]
    del vp_sink.LOG[:]
    return hits


def check_value(ctx, f, helper, v):
    agg = ctx.agg
    key = h((helper + "|" + repr(ckey(v))).encode("utf-8", "surrogatepass"))
    nontrivial = not ((type(v) is str and v.isascii() and v.isalpha()) or (type(v) is int and 0 <= v < 256))
    if not agg.case(key, nontrivial, {"helper": helper, "value": repr(v)[:80], "kind": kind(v)}):
        return
    w = {"helper": helper, "value_repr": repr(v)[:400], "kind": kind(v)}
    try:
        data = deliver(f, helper, v)
    except RecursionError:
        return
    except Exception as e:
        agg.count("values_delivered_or_refused")
        agg.hist("refusals", f"{kind(v)}:{type(e).__name__}")
        return
    w["hex"] = data.hex()[:1200]
    try:
        hits = load_and_get(data)
    except Exception as e:
        agg.violation(f"built-pickle-does-not-load:{kind(v)}",
                      f"the helper built a pickle for {kind(v)} value that the stock unpickler rejects: {type(e).__name__}: {str(e)[:100]}", w)
        return
    agg.count("values_delivered_or_refused")
    if len(hits) != 1 or len(hits[0][1]) != 2:
        agg.violation(f"argument-not-delivered:{kind(v)}", f"sink received {hits!r}"[:300], w)
        return
    got = hits[0][1][1]
    if ckey(got) != ckey(v):
        if type(got) is not type(v):
            k = f"silently-converted:{kind(v)}->{type(got).__name__}"
        else:
            k = f"silently-altered:{kind(v)}"
        agg.violation(k, f"asked to pass {v!r}, the unpickling process received {got!r}"[:300], dict(w, received=repr(got)[:300]))


# ------------------------------------------------------------------------------------------------
# (b) constructible opcodes

def opcode_args(name):
    """Representative arguments for an opcode class: valid, boundary and wrong-typed."""
    ints = [0, 1, 5, 127, 128, 255, 256, 65535, 65536, -1, -128, -129, 2**31 - 1, 2**31, -2**31, 2**63, -2**63, 2**100]
    strs = ["", "ab", "a b", "é", "中", "a\nb", "it's", 'q"q', "\\", "x" * 255, "x" * 256, "123",
            "\\u0041", "caf\\u00e9", "\\U0001f600", "\\\\u0041", "\\x41", "C:\\users", "\\u00", "a\\"]
    byts = [b"", b"ab", b"\x00\xff", b"a\nb", b"x" * 255, b"x" * 256]
    table = {
        "INT": ints + [True, False], "LONG": ints, "BININT": ints, "BININT1": ints, "BININT2": ints, "LONG1": ints, "LONG4": ints,
        "STRING": strs, "BINSTRING": strs, "SHORT_BINSTRING": strs,
        "UNICODE": strs + [s.encode("utf-8") for s in strs], "SHORT_BINUNICODE": strs, "BINUNICODE": strs, "BINUNICODE8": strs,
        "SHORT_BINBYTES": byts, "BINBYTES": byts, "BINBYTES8": byts,
        "BINFLOAT": [0.0, 1.5, -0.0, float("inf")],
        "GLOBAL": ["mod attr", "a.b c", "os system"], "INST": ["mod Cls"],
        "PUT": [0, 1, 321987], "BINPUT": [0, 255, 256], "LONG_BINPUT": [0, 256, 2**32 - 1],
        "GET": [0, 1, 321987, b"5\n"], "BINGET": [0, 255, 256], "LONG_BINGET": [0, 70000],
        "PROTO": [0, 2, 5, 255, 256], "FRAME": [0, 10, 2**40],
    }
    return table.get(name, [None])


def check_opcode(ctx, f, name, arg):
    agg = ctx.agg
    key = h(("op|" + name + "|" + repr(arg)).encode())
    if not agg.case(key, True, {"opcode": name, "arg": repr(arg)[:60]}):
        return
    cls = f.OPCODES_BY_NAME[name]
    w = {"opcode": name, "arg_repr": repr(arg)[:300]}
    try:
        op = cls(arg) if arg is not None else cls()
        enc = op.encode()
    except RecursionError:
        return
    except Exception as e:
        agg.count("opcode_encodings_checked")
        agg.hist("opcode_refusals", f"{name}:{type(e).__name__}")
        return
    agg.count("opcode_encodings_checked")
    w["encoded_hex"] = enc[:200].hex()
    tail = b"." if name != "STOP" else b""
    try:
        ops = [(o.name, a) for o, a, _ in pickletools.genops(enc + tail)]
    except Exception as e:
        agg.violation(f"opcode-encoding:{name}", f"{name}({arg!r}).encode() = {enc[:40]!r} is not readable by pickletools: {str(e)[:80]}", w)
        return
    want_len = 2 if tail else 1
    if len(ops) != want_len or ops[0][0] != name:
        agg.violation(f"opcode-encoding:{name}", f"{name}({arg!r}).encode() = {enc[:40]!r} reads back as {ops[:3]!r}", w)
        return
    back = ops[0][1]
    if not arg_equiv(name, arg, back):
        agg.violation(f"opcode-encoding:{name}", f"{name}({arg!r}).encode() reads back with argument {back!r}"[:300], w)


def check_opcode_in_pickle(ctx, f, name):
    """A constructed opcode placed into a pickle (framed / unframed) through the sequence interface, its argument then
    changed (a template patched per target) and the pickle serialised again: at its position the standard disassembler
    reads that opcode with the argument the object has now - or serialising refuses."""
    agg = ctx.agg
    cls = f.OPCODES_BY_NAME[name]
    good = []
    for arg in opcode_args(name):
        if arg is None:
            return
        try:
            enc = cls(arg).encode()
            if [(o.name) for o, a, _ in pickletools.genops(enc + b".")][0] != name:
                continue
            good.append(arg)
        except Exception:
            continue
        if len(good) == 3:
            break
    if len(good) < 2 or name in ("PROTO", "FRAME", "STOP"):
        return
    for pr in (2, 4):
        base = pickle.dumps(["some", "list", "of", "items", 1, 2.5], pr)
        for a1, a2 in ((good[0], good[1]), (good[1], good[-1]), (good[-1], good[0])):
            if a1 is a2:
                continue
            key = h(("oppatch|" + name + "|" + repr((a1, a2, pr))).encode())
            if not agg.case(key, True, {"opcode": name, "patched": [repr(a1)[:40], repr(a2)[:40]], "protocol": pr}):
                continue
            w = {"opcode": name, "arg_repr": repr(a1)[:200], "second_arg_repr": repr(a2)[:200], "protocol": pr, "patched": True}
            try:
                p = f.Pickled.load(base)
                op = cls(a1)
                idx = len(p) - 1
                p.insert(idx, op)
                first = p.dumps()
                op.arg = a2
                second = p.dumps()
            except RecursionError:
                continue
            except Exception as e:
                agg.hist("opcode_patch_refusals", f"{name}:{type(e).__name__}")
                continue
            agg.count("opcode_patches_checked")
            for which, data, want in (("as inserted", first, a1), ("after its argument was changed", second, a2)):
                try:
                    ops = [(o.name, a) for o, a, _ in pickletools.genops(data)]
                except Exception as e:
                    agg.violation(f"opcode-in-pickle:{name}", f"{name} {which}: the pickle is not readable by pickletools: {str(e)[:80]}", w)
                    break
                at = [a for n, a in ops if n == name]
                if not any(arg_equiv(name, want, b) for b in at):
                    agg.violation(f"opcode-in-pickle:{name}",
                                  f"{name}({want!r}) {which} (protocol {pr} pickle): the serialised pickle carries {name} with {at[:3]!r}"[:300], w)
                    break


NAME_PAIRS = [("mod", "\u00b5"), ("\uff4f\uff53", "getpid"), ("mod", "\ufb01le"), ("m", "e\u0301x"), ("caf\u00e9", "\u4e2d"), ("pkg.sub", "K"),
              ("m", "\u00aa"), ("\U0001d41a", "x"), ("mod", "plain"),
              # names the two-line text form cannot carry: blanks, newlines, nothing at all
              ("a b", "c"), ("m", "x "), ("m", " x"), ("m", "x\ny"), ("m\n", "x"), ("m", ""), ("", "x"), ("m", "x\ty"), ("m", "x\u3000y")]


def check_created_names(ctx, f):
    """Global / Inst opcodes built by the create helpers (and by the injection helpers' module= / attr=) carry the names
    they were given, byte for byte as the stock unpickler reads them (UTF-8 lines), or the helper refuses."""
    agg = ctx.agg
    for (m, n) in NAME_PAIRS:
        want_g = b"c" + m.encode() + b"\n" + n.encode() + b"\n"
        want_i = b"i" + m.encode() + b"\n" + n.encode() + b"\n"
        tests = [("Global.create", lambda: f.Global.create(m, n).encode(), want_g),
                 ("Inst.create", lambda: f.Inst.create(m, n).encode(), want_i)]

        def via_insert(first):
            p = f.Pickled.load(BASE)
            p.insert_python("x", module=m, attr=n, run_first=first)
            return next(op.data for op in p if op.info.name == "GLOBAL")
        tests += [("insert_python(module=,attr=)", lambda: via_insert(True), want_g),
                  ("insert_python(run_first=False)", lambda: via_insert(False), want_g)]

        def via_append():
            p = f.Pickled.load(BASE)
            p.append_python("x", module=m, attr=n)
            return next(op.data for op in p if op.info.name == "GLOBAL")
        tests.append(("append_python(module=,attr=)", via_append, want_g))
        for tname, fn, want in tests:
            key = h(("created-name|" + tname + "|" + m + "|" + n).encode("utf-8", "surrogatepass"))
            if not ctx.mine(key.encode()) or not agg.case(key, True, {"helper": tname, "value": f"{m}.{n}", "kind": "name"}):
                continue
            try:
                got = fn()
            except Exception as e:
                agg.hist("refusals", f"name:{type(e).__name__}")
                continue
            agg.count("created_names_checked")
            if got != want:
                agg.violation("created-name-altered",
                              f"{tname} with module {m!r} / attribute {n!r} produced {got!r}, the literal spelling is {want!r}",
                              {"helper": tname, "value_repr": f"{m!r}.{n!r}", "kind": "name"})


def arg_equiv(name, arg, back):
    if arg is None:
        return back is None
    if name in ("GET",) and isinstance(arg, bytes):
        return back == int(arg)
    if name == "UNICODE" and isinstance(arg, bytes):
        return back == arg.decode("utf-8")
    if name == "INT" and isinstance(arg, bool):
        return back is arg or back == int(arg)
    if name in ("STRING", "BINSTRING", "SHORT_BINSTRING"):
        return back == arg
    if isinstance(arg, float):
        return repr(back) == repr(arg)
    return type(back) is type(arg) and back == arg


# ------------------------------------------------------------------------------------------------
# CLI --create / --inject

def check_cli(ctx, f, cli, text, mode):
    import vp_sink
    agg = ctx.agg
    key = h(("cli|" + mode + "|" + text).encode("utf-8", "surrogatepass"))
    if not agg.case(key, not text.isascii(), {"cli": mode, "text": text[:60]}):
        return
    src = f"__import__('vp_sink').hit('tag', {text!r})"
    w = {"cli": mode, "text_repr": repr(text)[:300]}
    out_path = os.path.join(ctx.scratch, "c15_out.pkl")
    in_path = os.path.join(ctx.scratch, "c15_in.pkl")
    try:
        err = io.StringIO()
        if mode == "create":
            with contextlib.redirect_stderr(err):
                rc = cli.main(["fickling", "--create", src, out_path])
            with open(out_path, "rb") as fh:
                data = fh.read()
        else:
            with open(in_path, "wb") as fh:
                fh.write(BASE)

            class Out:
                def __init__(self):
                    self.buffer = io.BytesIO()

                def write(self, s):
                    pass

                def flush(self):
                    pass
            o = Out()
            import sys
            old = sys.stdout
            sys.stdout = o
            try:
                with contextlib.redirect_stderr(err):
                    rc = cli.main(["fickling", "--inject", src, in_path])
            finally:
                sys.stdout = old
            data = o.buffer.getvalue()
    except (Exception, SystemExit) as e:
        agg.count("values_delivered_or_refused")
        agg.hist("refusals", f"cli-{mode}:{type(e).__name__}")
        return
    finally:
        for pth in (out_path, in_path):
            if os.path.exists(pth):
                os.remove(pth)
    if rc != 0:
        agg.count("values_delivered_or_refused")
        return
    w["hex"] = data.hex()[:1200]
    try:
        hits = load_and_get(data)
    except Exception as e:
        agg.violation(f"cli-{mode}-pickle-does-not-load:{kind(text)}",
                      f"fickling --{mode} produced a pickle the stock unpickler rejects: {type(e).__name__}: {str(e)[:100]}", w)
        return
    agg.count("values_delivered_or_refused")
    if len(hits) != 1 or hits[0][1][1:] != (text,):
        agg.violation(f"cli-{mode}-altered:{kind(text)}",
                      f"source passed on the command line evaluates to {hits!r} instead of passing {text!r}"[:300], w)


RAW_SOURCES = [
    "__import__('vp_sink').hit('tag', \"caf\\u00e9\")",
    "__import__('vp_sink').hit('tag', '\\u0041\\x42\\103')",
    "__import__('vp_sink').hit('tag', r'\\u0041')",
    "__import__('vp_sink').hit('tag', 'a\\\\u0041')",
    "__import__('vp_sink').hit('tag', '\\N{LATIN SMALL LETTER E WITH ACUTE}')",
    "__import__('vp_sink').hit('tag', 'tab\\there')",
    "__import__('vp_sink').hit('tag', '%s' % 'x', '{}'.format(1))",
]


def check_cli_source(ctx, f, cli, src, mode):
    """The command-line text is Python source: what it evaluates to when run directly is what it must
    evaluate to when it arrives through the created / injected pickle."""
    import vp_sink
    agg = ctx.agg
    key = h(("clisrc|" + mode + "|" + src).encode())
    if not agg.case(key, True, {"cli": mode, "source": src[:80]}):
        return
    del vp_sink.LOG[:]
    eval(src, {"__builtins__": __builtins__})
    want = [e for e in vp_sink.LOG if e[0] == "hit"]
    del vp_sink.LOG[:]
    w = {"cli": mode, "source": src}
    out_path = os.path.join(ctx.scratch, "c15_out.pkl")
    in_path = os.path.join(ctx.scratch, "c15_in.pkl")
    try:
        err = io.StringIO()
        if mode == "create":
            with contextlib.redirect_stderr(err):
                rc = cli.main(["fickling", "--create", src, out_path])
            with open(out_path, "rb") as fh:
                data = fh.read()
        else:
            with open(in_path, "wb") as fh:
                fh.write(BASE)
            import sys

            class Out:
                def __init__(self):
                    self.buffer = io.BytesIO()

                def write(self, s):
                    pass

                def flush(self):
                    pass
            o, old = Out(), sys.stdout
            sys.stdout = o
            try:
                with contextlib.redirect_stderr(err):
                    rc = cli.main(["fickling", "--inject", src, in_path])
            finally:
                sys.stdout = old
            data = o.buffer.getvalue()
    except (Exception, SystemExit) as e:
        agg.count("values_delivered_or_refused")
        agg.hist("refusals", f"cli-{mode}:{type(e).__name__}")
        return
    finally:
        for pth in (out_path, in_path):
            if os.path.exists(pth):
                os.remove(pth)
    if rc != 0:
        return
    try:
        hits = load_and_get(data)
    except Exception as e:
        agg.violation(f"cli-{mode}-pickle-does-not-load:source", f"{type(e).__name__}: {str(e)[:100]}", w)
        return
    agg.count("values_delivered_or_refused")
    if [ckey(x[1]) for x in hits] != [ckey(x[1]) for x in want]:
        agg.violation(f"cli-{mode}-altered:source-escapes",
                      f"source evaluates to {want!r} when run directly but to {hits!r} through the pickle"[:300], w)


def run_shard(ctx):
    import fickling  # noqa: F401
    import fickling.fickle as f
    import fickling.cli as cli
    i = 0
    for v in values(ctx):
        for helper in HELPERS:
            i += 1
            if i % ctx.nshards == ctx.shard:
                check_value(ctx, f, helper, v)
                if helper in ("insert_python_first", "insert_python_last", "insert_python_obj"):
                    check_retry(ctx, f, helper, v)
                if helper == "insert_python_first":
                    check_composition(ctx, f, v, i % 4)
    check_created_names(ctx, f)
    for name in sorted(f.OPCODES_BY_NAME):
        i += 1
        if i % ctx.nshards == ctx.shard:
            check_opcode_in_pickle(ctx, f, name)
    for name in sorted(f.OPCODES_BY_NAME):
        for arg in opcode_args(name):
            i += 1
            if i % ctx.nshards == ctx.shard:
                check_opcode(ctx, f, name, arg)
    texts = [s for s in gen.STRS if s != "\ud800" and "\x00" not in s] + ["plain", "tab\t", "q'q\"q", "é中\U0001f600"]
    for t in texts:
        for mode in ("create", "inject"):
            i += 1
            if i % ctx.nshards == ctx.shard:
                check_cli(ctx, f, cli, t, mode)
    for src in RAW_SOURCES:
        for mode in ("create", "inject"):
            i += 1
            if i % ctx.nshards == ctx.shard:
                check_cli_source(ctx, f, cli, src, mode)


def replay(ctx, payload):
    import fickling  # noqa: F401
    import fickling.fickle as f
    import fickling.cli as cli
    c = payload["case"]
    if "helper" in c and "value_repr" in c and len(c["value_repr"]) < 400:
        check_value(ctx, f, c["helper"], eval(c["value_repr"], {"__builtins__": {}}, {"inf": float("inf"), "nan": float("nan")}))
    elif "opcode" in c:
        check_opcode(ctx, f, c["opcode"], eval(c["arg_repr"], {"__builtins__": {}}, {"inf": float("inf")}))
    elif "cli" in c:
        check_cli(ctx, f, cli, eval(c["text_repr"], {"__builtins__": {}}, {}), c["cli"])
    else:
        ctx.agg.inconclusive.append("witness value too long to replay from its repr; re-run the check")

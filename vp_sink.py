"""Harmless sink module: non-stdlib by construction.  Everything that is *supposed* to run
(after a permissive checked load, after an injection) calls into here, so that "ran exactly
once with exactly these arguments" can be read off LOG."""

LOG = []


def hit(*args, **kwargs):
    LOG.append(("hit", args, kwargs))
    return ("hit-result",) + tuple(args)


def mk(*args):
    LOG.append(("mk", args, {}))
    return list(args)


def ident(x):
    LOG.append(("ident", (x,), {}))
    return x


class K:
    """plain instance with dict state"""

    def __init__(self, *a):
        self.a = a

    def __eq__(self, other):
        return type(other) is type(self) and self.__dict__ == other.__dict__

    __hash__ = object.__hash__

    def __repr__(self):
        return f"{type(self).__name__}({self.__dict__!r})"


class KSlots:
    __slots__ = ("x", "y")

    def __init__(self, x=1, y=2):
        self.x = x
        self.y = y

    def __eq__(self, other):
        return type(other) is KSlots and (self.x, self.y) == (other.x, other.y)

    __hash__ = object.__hash__


class KReduce:
    def __init__(self, v):
        self.v = v

    def __reduce__(self):
        return (hit, ("reduce", self.v))


class KReduceState:
    def __init__(self, v=0):
        self.v = v
        self.extra = {"k": v}

    def __reduce__(self):
        return (KReduceState, (self.v,), {"extra": self.extra, "v": self.v})

    def __eq__(self, other):
        return type(other) is KReduceState and self.__dict__ == other.__dict__

    __hash__ = object.__hash__


class KNewArgs:
    def __new__(cls, *a):
        o = object.__new__(cls)
        o.na = a
        return o

    def __getnewargs__(self):
        return (1, "two")

    def __eq__(self, other):
        return type(other) is KNewArgs and self.__dict__ == other.__dict__

    __hash__ = object.__hash__


class KNewArgsEx:
    def __new__(cls, *a, **k):
        o = object.__new__(cls)
        o.na = (a, tuple(sorted(k.items())))
        return o

    def __getnewargs_ex__(self):
        return ((1,), {"kw": 2})

    def __eq__(self, other):
        return type(other) is KNewArgsEx and self.__dict__ == other.__dict__

    __hash__ = object.__hash__


class KSetState:
    def __init__(self):
        self.s = None

    def __getstate__(self):
        return ("state", 3)

    def __setstate__(self, st):
        LOG.append(("setstate", (st,), {}))
        self.s = st

    def __eq__(self, other):
        return type(other) is KSetState and self.s == other.s

    __hash__ = object.__hash__


class KList(list):
    pass


class KDict(dict):
    pass


class KSet(set):
    pass


def hot(*args, **kwargs):
    """Same as hit under another three-letter name (equal-length content swaps in C02)."""
    LOG.append(("hot", args, kwargs))
    return ("hot-result",) + tuple(args)


def nested_load(blob, adds=None):
    """A reconstructor an application may allow-list: it unpickles an embedded blob with the allow-listing unpickler and
    additions of its own (C11: an unpickler constructed while another one is loading)."""
    import io
    from fickling.ml import FicklingMLUnpickler
    LOG.append(("nested_load", (len(blob), tuple(adds or ())), {}))
    return FicklingMLUnpickler(io.BytesIO(blob), also_allow=list(adds) if adds else None).load()


def _masquerade():
    import collections
    import functools

    @functools.wraps(collections.OrderedDict)
    def masquerade(*args, **kwargs):
        LOG.append(("masquerade", args, kwargs))
        return "masquerade-result"
    return masquerade


# a recording function that *reports* an allow-listed identity (what functools.wraps does for a tracing shim around
# collections.OrderedDict): __module__ == "collections", __qualname__ == "OrderedDict" - its name in a pickle is still
# vp_sink.masquerade
masquerade = _masquerade()
# ... and a plain re-export of an allow-listed object under a name that is not allow-listed
OrderedDictAlias = __import__("collections").OrderedDict

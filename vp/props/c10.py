"""C10 - All faces of the safety check agree on the same per-pickle severity."""
import contextlib
import io
import itertools
import json
import operator
import os
import pickle
import random

from vp import asm, gen
from vp.core import h

CONFIG = dict(
    level="exploration",
    rule=("files of 1..5 stacked pickles drawn from families at every reachable severity (benign data, unused "
          "stdlib constructor, non-stdlib import, dangerous-module import, eval call) in all placements of the "
          "flagged elements (bounded-exhaustive over family tuples up to the tier's k, plus seeded random "
          "stacks of natural and vocabulary pickles); per-pickle severities are computed independently on "
          "separately parsed parts and compared with: is_likely_safe(path), the checked loader at all six "
          "thresholds (raise/return and info['severity']), the CLI --check-safety exit status with and "
          "without --json-output / --print-results - file given by path, on standard input fed by a pipe, redirected from a "
          "file, and as the default PICKLE_FILE - every JSON document appended to the report, "
          "severity == max over findings; plus the full 36-pair x 6-operator Severity table, max(), sorted() "
          "and `in`.  A case is one distinct (file bytes, CLI option set); non-trivial = the file holds a "
          "pickle above LIKELY_SAFE or more than one pickle."),
    assumptions=[
        "the checked loader's final pickle.loads is replaced by a recorder in this child (nothing is unpickled)",
        "CLI is run in-process through fickling.cli.main with stdout/stderr captured",
        "hashability of Severity and comparisons with non-Severity values are not part of the statement",
    ],
    min_nontrivial={"quick": 300, "thorough": 5000},
    nshards={"quick": 8, "thorough": 16},
    timeout={"quick": 600, "thorough": 3600},
    required_counters=("threaded_face_rounds", "threaded_yields_injected", "worker_thread_faces", "failing_inputs_checked", "rewritten_file_faces", "files_checked", "cli_runs", "json_documents", "loader_threshold_checks", "order_table_cells"),
)

RANKS = ["LIKELY_SAFE", "POSSIBLY_UNSAFE", "SUSPICIOUS", "LIKELY_UNSAFE", "LIKELY_OVERTLY_MALICIOUS",
         "OVERTLY_MALICIOUS"]

FAMILIES = {
    "safe_list": pickle.dumps([1, 2, 3], 2),
    "safe_dict": pickle.dumps({"a": (1, 2.5, None)}, 4),
    "safe_text": pickle.dumps("hello", 0),
    "suspicious": b"ccollections\nOrderedDict\n(tR0N.",
    "unsafe_nonstd": b"cvp_sink\nhit\n(K\x01tR.",
    "unsafe_nonstd_import_only": b"cvp_sink\nK\n.",
    "lom_os": b"cos\ngetpid\n(tR.",
    "lom_ospath": b"cos.path\njoin\n(S'a'\nS'b'\ntR.",
    "om_eval": b"c__builtin__\neval\n(S'1+1'\ntR.",
    "om_exec_obj": b"(c__builtin__\nexec\nS'pass'\no.",
    "dup_proto": b"\x80\x02\x80\x02N.",
}


class FakePickle:
    calls = []

    @classmethod
    def loads(cls, data, *a, **k):
        cls.calls.append(bytes(data))
        if b"vp_module_that_is_not_installed" in bytes(data):
            raise ModuleNotFoundError("No module named 'vp_module_that_is_not_installed'")      # what the real loads would do
        return ("vp-not-loaded", len(data))


def order_table(ctx, analysis):
    agg = ctx.agg
    S = analysis.Severity
    members = [getattr(S, n) for n in RANKS]
    ops = {"<": operator.lt, "<=": operator.le, "==": operator.eq, "!=": operator.ne, ">": operator.gt,
           ">=": operator.ge}
    for (i, a), (j, b) in itertools.product(enumerate(members), repeat=2):
        for sym, fn in ops.items():
            agg.count("order_table_cells")
            got = fn(a, b)
            want = fn(i, j)
            if got is not want:
                agg.violation(f"severity-order:{sym}", f"{a.name} {sym} {b.name} is {got!r}, documented ranks say {want}",
                              {"a": a.name, "b": b.name, "op": sym})
    for perm in itertools.permutations(members, 3):
        agg.count("order_table_cells")
        if max(perm) is not members[max(members.index(x) for x in perm)] or \
                min(perm) is not members[min(members.index(x) for x in perm)]:
            agg.violation("severity-order:max/min", "max()/min() disagree with the ranks", {"perm": [x.name for x in perm]})
        if [x.name for x in sorted(perm)] != [members[k].name for k in sorted(members.index(x) for x in perm)]:
            agg.violation("severity-order:sorted", "sorted() disagrees with the ranks", {"perm": [x.name for x in perm]})
    for i, a in enumerate(members):
        agg.count("order_table_cells")
        if (a in members[:i] + members[i + 1:]) or (a not in members):
            agg.violation("severity-order:in", "`in` on lists disagrees with identity of ranks", {"a": a.name})
        if a.name != RANKS[i] or a.value[0] != i:
            agg.violation("severity-order:rank", "documented rank changed", {"a": a.name})
    agg.case("order-table", True, {"order_table": "36 pairs x 6 operators + max/min/sorted/in"})


def read_json_docs(path):
    with open(path) as fh:
        text = fh.read()
    docs, pos, dec = [], 0, json.JSONDecoder()
    while pos < len(text):
        while pos < len(text) and text[pos].isspace():
            pos += 1
        if pos >= len(text):
            break
        d, pos = dec.raw_decode(text, pos)
        docs.append(d)
    return docs


LEAKY = [b"cvp_module_that_is_not_installed\nthing\n.", b"cvp_module_that_is_not_installed\nthing\n)R.",
         b"\x80\x02]q\x00cvp_module_that_is_not_installed\nK\nq\x01a."]


def accepted_load_that_fails(ctx, mods, i):
    """History for the faces that follow: a pickle is *accepted* at a lenient threshold and its unpickling then fails on its
    own (module not installed).  Whatever that leaves behind must not change how later files are judged."""
    f, analysis, loader, cli, fickling, U = mods
    for thr in ("OVERTLY_MALICIOUS", "LIKELY_UNSAFE"):
        try:
            loader.load(io.BytesIO(LEAKY[i % len(LEAKY)]), max_acceptable_severity=getattr(analysis.Severity, thr))
        except BaseException:
            ctx.agg.count("accepted_loads_that_failed")


def tail_bytes(name):
    """What follows the stack in the file: nothing, or a zip archive (as in a pickle / checkpoint polyglot) whose
    `model/data.pkl` member is a pickle of another severity than the file's own first pickle.  The zip signature does
    not start a pickle, so the file's pickles are the ones in front of it - for every face."""
    if not name:
        return b""
    import zipfile
    buf = io.BytesIO()
    with zipfile.ZipFile(buf, "w") as z:
        z.writestr("model/data.pkl", {"zip-benign": pickle.dumps([1, 2, 3], 2), "zip-flagged": b"cos\ngetpid\n(tR.",
                                      "zip-flagged-root": b"cvp_sink\nhit\n(tR."}[name])
        if name == "zip-flagged-root":
            z.writestr("data.pkl", b"cvp_sink\nhit\n(tR.")
        z.writestr("model/version", b"3\n")
    return buf.getvalue()


def check_file(ctx, mods, label, parts, opts):
    f, analysis, loader, cli, fickling, U = mods
    agg = ctx.agg
    data = b"".join(parts) + tail_bytes(opts.get("tail"))
    if int(h(data)[:2], 16) % 3 == 0:
        accepted_load_that_fails(ctx, mods, len(data))
    key = h(data + repr(sorted(opts.items())).encode())
    # independent per-pickle severities
    sevs, results = [], []
    for part in parts:
        try:
            r = analysis.check_safety(f.Pickled.load(part))
        except Exception as e:
            agg.hist("part_analysis_raised", type(e).__name__)
            return
        results.append(r)
        sevs.append(r.severity)
    # face: an Analyzer built by hand from the registered analyses, and the result object's own views
    shapes = {"list": lambda: list(analysis.Analysis.ALL), "generator": lambda: (a for a in analysis.Analysis.ALL),
              "tuple": lambda: tuple(analysis.Analysis.ALL), "iterator": lambda: iter(list(analysis.Analysis.ALL)),
              "reversed-twice": lambda: reversed(list(reversed(list(analysis.Analysis.ALL))))}
    shape = sorted(shapes)[int(key[:2], 16) % len(shapes)]
    one_analyzer = analysis.Analyzer(shapes[shape]())         # one hand-built analyzer for all pickles of the file
    for part, r in list(zip(parts, results)) * 2:
        try:
            r2 = analysis.check_safety(f.Pickled.load(part), analyzer=one_analyzer)
            agg.count("fresh_analyzer_runs")
            if r2.severity != r.severity or sorted(str(x) for x in r2.results) != sorted(str(x) for x in r.results):
                agg.violation("face:fresh-analyzer", f"an Analyzer built from the registered analyses (given as {shape}, used for "
                                                     f"every pickle of the file) gives {r2.severity.name}, "
                                                     f"the default one {r.severity.name} (or other findings)",
                              {"label": label, "parts_hex": [part.hex()], "severities": [r.severity.name, r2.severity.name]})
        except Exception as e:
            agg.violation(f"face:fresh-analyzer-raises:{type(e).__name__}", str(e)[:150], {"label": label, "parts_hex": [part.hex()]})
    nontrivial = len(parts) > 1 or sevs[0].name != "LIKELY_SAFE"
    if not agg.case(key, nontrivial, {"label": label, "k": len(parts), "severities": [s.name for s in sevs], "cli_opts": opts}):
        return
    agg.count("files_checked")
    for s in sevs:
        agg.hist("per_pickle_severity", s.name)
    w = {"label": label, "parts_hex": [p.hex() for p in parts], "severities": [s.name for s in sevs], "opts": opts}
    # severity == max over findings, LIKELY_SAFE iff none
    for r in results:
        names = [x.severity.name for x in r.results]
        want = max((RANKS.index(n) for n in names), default=0)
        if RANKS.index(r.severity.name) != want or ((r.severity.name == "LIKELY_SAFE") != (not names)):
            agg.violation("severity-not-max", f"severity {r.severity.name} but findings {names}", w)
    # the severity in a report does not depend on the verbosity it was rendered with
    vpath = os.path.join(ctx.scratch, "c10_verbosity.json")
    for r0, part in zip(results, parts):
        for vname in RANKS:
            if os.path.exists(vpath):
                os.remove(vpath)
            try:
                rv = analysis.check_safety(f.Pickled.load(part), verbosity=getattr(analysis.Severity, vname), json_output_path=vpath)
                docs = read_json_docs(vpath)
            except Exception as e:
                agg.violation(f"face:verbosity-raises:{type(e).__name__}", f"check_safety(verbosity={vname}) raised {e}"[:200], w)
                break
            agg.count("verbosity_reports")
            if rv.severity.name != r0.severity.name or len(docs) != 1 or docs[0].get("severity") != r0.severity.name \
                    or rv.to_dict(getattr(analysis.Severity, vname)).get("severity") != r0.severity.name:
                agg.violation("face:report-severity-depends-on-verbosity",
                              f"with verbosity {vname} the report says {docs[0].get('severity') if docs else None}, verdict is {r0.severity.name}", w)
                break
    if os.path.exists(vpath):
        os.remove(vpath)
    path = os.path.join(ctx.scratch, "c10_input.pkl")
    with open(path, "wb") as fh:
        fh.write(data)
    try:
        # face: is_likely_safe (first pickle)
        got = fickling.is_likely_safe(path)
        if got is not (sevs[0].name == "LIKELY_SAFE"):
            agg.violation("face:is_likely_safe", f"is_likely_safe() is {got} but first pickle's severity is {sevs[0].name}", w)
        # face: checked loader at all six thresholds
        for t in RANKS:
            thr = getattr(analysis.Severity, t)
            FakePickle.calls.clear()
            agg.count("loader_threshold_checks")
            try:
                with open(path, "rb") as fh:
                    loader.load(fh, max_acceptable_severity=thr)
                raised = None
            except U as e:
                raised = e
            should_raise = RANKS.index(sevs[0].name) > RANKS.index(t)
            if (raised is not None) != should_raise:
                agg.violation("face:loader-threshold",
                              f"loader at threshold {t}: raised={raised is not None}, severity {sevs[0].name}", dict(w, threshold=t))
            elif raised is not None and raised.info.get("severity") != sevs[0].name:
                agg.violation("face:loader-info", f"UnsafeFileError.info severity {raised.info.get('severity')} != {sevs[0].name}",
                              dict(w, threshold=t))
            elif raised is None and FakePickle.calls != [parts[0]]:
                agg.violation("face:loader-bytes", "loader handed other bytes than the analysed first pickle to the unpickler", w)
        # face: CLI
        jpath = os.path.join(ctx.scratch, "c10_report.json")
        default_json = os.path.join(ctx.scratch, "safety_results.json")
        for pth in (jpath, default_json):
            if os.path.exists(pth):
                os.remove(pth)
        argv = ["fickling", "--check-safety"]
        if opts.get("json"):
            argv += ["--json-output", jpath]
        if opts.get("print"):
            argv += ["--print-results"]
        via = opts.get("via", "path")
        import sys as _sys
        old_stdin, stdin_stream = _sys.stdin, None
        if via == "path":
            argv.append(path)
        else:
            # the CLI's default input: standard input - fed by a pipe (not seekable) or redirected from a file
            if via == "stdin-pipe" and len(data) < 60000:
                rfd, wfd = os.pipe()
                os.write(wfd, data)
                os.close(wfd)
                stdin_stream = os.fdopen(rfd, "rb")
            else:
                stdin_stream = open(path, "rb")
            _sys.stdin = io.TextIOWrapper(stdin_stream, encoding="latin-1")
            if via != "stdin-default":
                argv.append("-")
        out, err = io.StringIO(), io.StringIO()
        try:
            with contextlib.redirect_stdout(out), contextlib.redirect_stderr(err):
                try:
                    rc = cli.main(argv)
                except SystemExit as e:
                    rc = e.code
        finally:
            _sys.stdin = old_stdin
            if stdin_stream is not None:
                try:
                    stdin_stream.close()
                except Exception:
                    pass
        agg.count("cli_runs")
        want_rc = 0 if all(s.name == "LIKELY_SAFE" for s in sevs) else 1
        if rc != want_rc:
            agg.violation("face:cli-exit", f"CLI exit {rc}, expected {want_rc} for severities {[s.name for s in sevs]}", w)
        rep = jpath if opts.get("json") else default_json
        if not os.path.exists(rep):
            agg.violation("face:cli-json-missing", "CLI wrote no JSON report", w)
        else:
            docs = read_json_docs(rep)
            agg.count("json_documents", len(docs))
            if len(docs) != len(parts):
                agg.violation("face:cli-json-count", f"{len(docs)} JSON documents for {len(parts)} pickles", w)
            for i, (d, r) in enumerate(zip(docs, results)):
                exp = r.to_dict()
                if d.get("severity") != sevs[i].name:
                    agg.violation("face:cli-json-severity", f"document {i} severity {d.get('severity')} != {sevs[i].name}", w)
                elif json.dumps(d, sort_keys=True) != json.dumps(exp, sort_keys=True, default=str):
                    agg.violation("face:cli-json-content", f"document {i} differs from to_dict() of an independent run", w)
        if opts.get("print"):
            text = out.getvalue()
            for r in results:
                for x in r.results:
                    if RANKS.index(x.severity.name) >= 1 and str(x.message) not in text:
                        agg.violation("face:cli-print", "--print-results omitted a finding's message", w)
                        break
        for pth in (jpath, default_json):
            if os.path.exists(pth):
                os.remove(pth)
    finally:
        if os.path.exists(path):
            os.remove(path)


def failing_inputs():
    """Pickles that parse but on which symbolic interpretation raises half-way, with dangerous material around the
    failing opcode (so that a query resumed after the failure would see a different, possibly harmless, program)."""
    poison = [b"h\x07", b"g99\n", b"Ppid\n", b"K\x01Q", b"000", b"1", b"K\x01a", b"\x90", b"\x82\x01"]
    out = []
    for po in poison:
        out.append(b"ccollections\nOrderedDict\nc__builtin__\neval\n" + po + b"0(S'1+1'\ntRNb.")
        out.append(b"cos\nsystem\n" + po + b"0(S'echo'\ntR.")
        out.append(b"]" + po + b"cos\nsystem\n(S'echo'\ntRa.")
        out.append(b"cos\nsystem\n(S'echo'\ntR" + po + b".")
        out.append(b"\x80\x04" + b"c__builtin__\nexec\n" + po + b"(S'1'\ntR0N.")
    return out


def check_failing(ctx, mods, data):
    """All faces on an input whose analysis fails: asking again (same object or not) gives the same failure - never a
    verdict, least of all a safe one."""
    f, analysis, loader, cli, fickling, U = mods
    agg = ctx.agg
    key = h(b"failing|" + data)
    try:
        f.Pickled.load(data)
    except Exception:
        return            # does not even parse: nothing to ask twice
    try:
        analysis.check_safety(f.Pickled.load(data))
        return            # analysable after all: not a member of this family
    except RecursionError:
        return
    except Exception as e:
        first = type(e).__name__
    if not agg.case(key, True, {"label": "failing", "hex": data.hex()[:120], "first_outcome": first}):
        return
    w = {"label": "failing", "parts_hex": [data.hex()], "first_outcome": first}
    path = os.path.join(ctx.scratch, "c10_failing.pkl")
    with open(path, "wb") as fh:
        fh.write(data)
    p = f.Pickled.load(data)

    def face(fn):
        try:
            r = fn()
            return "value:" + (r.severity.name if hasattr(r, "severity") else repr(r)[:40])
        except U:
            return "UnsafeFileError"
        except SystemExit as e:
            return f"exit:{e.code}"
        except RecursionError:
            return "RecursionError"
        except Exception as e:
            return type(e).__name__

    def cli_face():
        with contextlib.redirect_stdout(io.StringIO()), contextlib.redirect_stderr(io.StringIO()):
            return "rc:%s" % cli.main(["fickling", "--check-safety", "--json-output", os.path.join(ctx.scratch, "c10_f.json"), path])
    try:
        outcomes = [("same-object-1", face(lambda: analysis.check_safety(p))),
                    ("same-object-2", face(lambda: analysis.check_safety(p))),
                    ("same-object-properties", face(lambda: (p.properties, analysis.check_safety(p))[1])),
                    ("same-object-3", face(lambda: analysis.check_safety(p))),
                    ("is_likely_safe", face(lambda: fickling.is_likely_safe(path))),
                    ("is_likely_safe-again", face(lambda: fickling.is_likely_safe(path))),
                    ("loader", face(lambda: loader.load(io.BytesIO(data)))),
                    ("cli", face(cli_face)), ("cli-again", face(cli_face)),
                    ("fresh-object", face(lambda: analysis.check_safety(f.Pickled.load(data))))]
    finally:
        for pth in (path, os.path.join(ctx.scratch, "c10_f.json")):
            if os.path.exists(pth):
                os.remove(pth)
    agg.count("failing_inputs_checked")
    verdicts = [(n, o) for n, o in outcomes if o.startswith("value:") or o == "rc:0"]
    if verdicts:
        agg.violation("face:verdict-after-failed-analysis",
                      f"analysis of these bytes fails ({first}), yet a later query answers {verdicts[:3]}",
                      dict(w, outcomes=outcomes))


def check_rewritten_file(ctx, mods, i):
    """One path, its content replaced in place (same inode, same size, modification time put back): every face is asked
    before and after and must answer for the content it finds."""
    f, analysis, loader, cli, fickling, U = mods
    agg = ctx.agg
    fams = sorted(FAMILIES)
    a, b = FAMILIES[fams[i % len(fams)]], FAMILIES[fams[(i * 7 + 3) % len(fams)]]
    size = max(len(a), len(b)) + 8
    contents = [a + b"\x00" * (size - len(a)), b + b"\x00" * (size - len(b)), a + b"\x00" * (size - len(a))]
    path = os.path.join(ctx.scratch, "c10_rewritten.pkl")
    key = h(b"rewritten|" + a + b"|" + b)
    if not agg.case(key, True, {"label": "file-rewritten-in-place", "families": [fams[i % len(fams)], fams[(i * 7 + 3) % len(fams)]]}):
        return
    stamp = None
    try:
        for step, content in enumerate(contents):
            if stamp is None:
                with open(path, "wb") as fh:
                    fh.write(content)
                st = os.stat(path)
                stamp = (st.st_atime_ns, st.st_mtime_ns)
            else:
                with open(path, "r+b") as fh:
                    fh.write(content)
                os.utime(path, ns=stamp)
            try:
                sev = analysis.check_safety(f.Pickled.load(content)).severity.name
            except Exception:
                return
            want_safe = sev == "LIKELY_SAFE"
            got = {}
            try:
                got["is_likely_safe"] = fickling.is_likely_safe(path)
            except Exception as e:
                got["is_likely_safe"] = type(e).__name__
            try:
                with open(path, "rb") as fh:
                    loader.load(fh)
                got["loader"] = True
            except U:
                got["loader"] = False
            except Exception as e:
                got["loader"] = type(e).__name__
            with contextlib.redirect_stdout(io.StringIO()), contextlib.redirect_stderr(io.StringIO()):
                try:
                    rc = cli.main(["fickling", "--check-safety", "--json-output", os.path.join(ctx.scratch, "c10_rw.json"), path])
                except SystemExit as e:
                    rc = e.code
            got["cli"] = rc == 0
            agg.count("rewritten_file_faces", 3)
            wrong = {k: v for k, v in got.items() if v is not want_safe}
            if wrong:
                agg.violation("face:stale-after-file-rewritten-in-place",
                              f"content #{step + 1} of a file rewritten in place has severity {sev}; faces answered {wrong}",
                              {"label": "file-rewritten-in-place", "parts_hex": [c.hex() for c in contents[:2]], "step": step + 1})
                return
    finally:
        for pth in (path, os.path.join(ctx.scratch, "c10_rw.json")):
            if os.path.exists(pth):
                os.remove(pth)


def stacks(ctx):
    fams = sorted(FAMILIES)
    kmax = {"quick": 3, "thorough": 4}[ctx.tier]
    optsets = [{"json": True, "print": False}, {"json": False, "print": False}, {"json": True, "print": True},
               {"json": False, "print": True}]
    idx = 0
    for k in range(1, kmax + 1):
        for combo in itertools.product(fams, repeat=k):
            idx += 1
            if idx % ctx.nshards != ctx.shard:
                continue
            if k == kmax and ctx.tier == "quick" and idx % 4:
                continue
            parts = [FAMILIES[c] for c in combo]
            yield "fam-" + "+".join(combo), parts, optsets[idx % 4]
            yield "fam-" + "+".join(combo), parts, dict(optsets[idx % 4], via=("stdin-pipe", "stdin-file", "stdin-default")[idx % 3])
            if k <= 2:
                for o in optsets:
                    yield "fam-" + "+".join(combo), parts, o
                # the same stack in front of a zip archive
                yield "fam-" + "+".join(combo) + "+ziptail", parts, dict(optsets[0], tail=("zip-benign", "zip-flagged", "zip-flagged-root")[idx % 3])
    # random stacks of natural + vocabulary pickles
    import vp_sink
    pool = list(FAMILIES.values())
    vals = [[1, {2}], vp_sink.K(), {"k": vp_sink.KReduce(2)}, (1, "a"), frozenset({1})]
    for v in vals:
        for _, b in gen.natural_pickles(v):
            pool.append(b)
    for (m, n) in gen.DANGEROUS[:8] + gen.NONSTD[:4] + gen.BENIGN_STDLIB[:4]:
        pool.append(gen.push_global("GLOBAL", m, n) + b".")
        pool.append(gen.make_call("GLOBAL", "REDUCE", m, n, ["x"]) + b"0N.")
    n = {"quick": 400, "thorough": 8000}[ctx.tier]
    for i in range(n):
        if i % ctx.nshards != ctx.shard:
            continue
        rng = asm.rng_for(ctx.seed, f"c10s{i}")
        parts = [rng.choice(pool) for _ in range(rng.randint(1, 5))]
        yield "rand", parts, dict(rng.choice(optsets), via=rng.choice(["path", "path", "stdin-pipe", "stdin-file", "stdin-default"]))


def setup():
    import fickling
    import fickling.fickle as f
    import fickling.analysis as analysis
    import fickling.loader as loader
    import fickling.cli as cli
    from fickling.exception import UnsafeFileError
    loader.pickle = FakePickle
    return f, analysis, loader, cli, fickling, UnsafeFileError


THREAD_INPUTS = [("benign-list", pickle.dumps([1, 2, 3], 2)), ("benign-dict", pickle.dumps({"a": (1, "b")}, 4)),
                 ("suspicious", b"ccollections\nOrderedDict\n(tR0N."), ("unsafe-sink", b"cvp_sink\nhit\n(K\x01tR."),
                 ("lom-getpid", b"cos\ngetpid\n(tR."), ("om-eval", b"c__builtin__\neval\n(S'1+1'\ntR."),
                 ("unsafe-import-only", b"cvp_sink\nhit\n0N."), ("benign-text", pickle.dumps("text" * 9, 0))]


def threaded_faces(ctx, mods):
    """The faces asked by several threads at once, each about its own file: every answer is the one the same
    question gets single-threaded (verdict, findings document, is_likely_safe, what the checked loader does)."""
    from vp import threads
    f, analysis, loader, cli, fickling, U = mods
    agg = ctx.agg
    paths = []
    for i, (lab, d) in enumerate(THREAD_INPUTS):
        pth = os.path.join(ctx.scratch, f"c10_thr_{i}.pkl")
        with open(pth, "wb") as fh:
            fh.write(d)
        paths.append(pth)

    def faces(i):
        d, pth = THREAD_INPUTS[i][1], paths[i]
        out = []
        r = analysis.check_safety(f.Pickled.load(d))
        out.append(("severity", r.severity.name))
        out.append(("document", json.dumps(r.to_dict(), sort_keys=True, default=str)))
        out.append(("is_likely_safe", fickling.is_likely_safe(pth)))
        try:
            loader.load(io.BytesIO(d))
            out.append(("loader", "accepted"))
        except U as e:
            out.append(("loader", "refused:" + str(e.info.get("severity"))))
        return out
    try:
        want = [faces(i) for i in range(len(THREAD_INPUTS))]
        for i in range(len(THREAD_INPUTS)):
            kind, got = threads.in_worker(faces, i)
            agg.count("worker_thread_faces")
            if kind != "ok" or got != want[i]:
                diff = got if kind != "ok" else next((a, b) for a, b in zip(want[i], got) if a != b)
                agg.violation("face:worker-thread-differs", f"{THREAD_INPUTS[i][0]}: main thread / worker thread: {diff!r}"[:300],
                              {"label": THREAD_INPUTS[i][0], "threaded": "worker", "hex": THREAD_INPUTS[i][1].hex()})
        for r in range({"quick": 2, "thorough": 20}[ctx.tier]):
            rng = random.Random(ctx.seed * 7919 + ctx.shard * 101 + r)
            idx = rng.sample(range(len(THREAD_INPUTS)), 5)
            res, st = threads.race([(lambda i=i: [faces(i) for _ in range(3)]) for i in idx], seed=rng.randrange(1 << 30))
            agg.count("threaded_face_rounds")
            agg.count("threaded_yields_injected", st["yields_injected"])
            for i, (kind, got) in zip(idx, res):
                agg.case(h(repr(("thr", i, r, ctx.shard, ctx.seed)).encode()), True, {"threaded": True})
                w = {"label": THREAD_INPUTS[i][0], "threaded": "race", "hex": THREAD_INPUTS[i][1].hex(),
                     "others": [THREAD_INPUTS[j][0] for j in idx]}
                if kind != "ok":
                    agg.violation("face:threaded-differs", f"{THREAD_INPUTS[i][0]}: thread ended with {kind} {got!r}"[:300], w)
                    continue
                for g in got:
                    if g != want[i]:
                        a, b = next((a, b) for a, b in zip(want[i], g) if a != b)
                        agg.violation(f"face:threaded-differs:{a[0]}",
                                      f"{THREAD_INPUTS[i][0]}: {str(a[1])[:90]} single-threaded, {str(b[1])[:90]} while other threads check other files", w)
                        break
    finally:
        for pth in paths:
            if os.path.exists(pth):
                os.remove(pth)


def run_shard(ctx):
    mods = setup()
    threaded_faces(ctx, mods)
    if ctx.shard == 0:
        order_table(ctx, mods[1])
    for label, parts, opts in stacks(ctx):
        check_file(ctx, mods, label, parts, opts)
    for i in range(40):
        if i % ctx.nshards == ctx.shard:
            check_rewritten_file(ctx, mods, i)
    for i, data in enumerate(failing_inputs()):
        if i % ctx.nshards == ctx.shard:
            check_failing(ctx, mods, data)


def replay(ctx, payload):
    mods = setup()
    c = payload["case"]
    if c.get("threaded"):
        threaded_faces(ctx, mods)
        return
    if "parts_hex" not in c:
        order_table(ctx, mods[1])
        return
    check_file(ctx, mods, c.get("label", "replay"), [bytes.fromhex(x) for x in c["parts_hex"]], c.get("opts", {"json": True}))

"""Child-side monitors: audit-event recorder, neutered process spawners, canaries.

Imported and installed by childmain *before* fickling (or anything else of substance) is
imported.  Only the standard library is used here.

The audit hook is the independent observer of effects: CPython raises the events from
inside the interpreter (including the C unpickler), whatever code path caused them.
The hook is cheap when not recording (one global test) so it can stay installed in the
bulk differential runs.
"""
import os
import sys

EVENTS = []          # recorded (name, summary) tuples while RECORDING
RECORDING = False
FAILPOINT = None     # callable(name, summary, index) -> exception instance or None
_FP_INDEX = 0
HOOK_CALLS = 0       # how many audit events the hook has seen while recording
INSTALLED = False
RECORDER_HITS = []   # hits of the neutered spawners (always recorded)

# events we never care about (very chatty or irrelevant)
_IGNORE_PREFIX = ("object.__", "sys._getframe", "sys._current", "gc.", "code.__new__",
                  "builtins.id", "array.__new__", "time.sleep", "cpython.",
                  "sys.settrace", "sys.setprofile", "sys.monitoring", "builtins.input",
                  "sys.excepthook", "sys.unraisablehook", "glob.glob", "os.walk",
                  "os.fwalk", "pathlib.Path.glob", "pathlib.Path.rglob", "resource.",
                  "signal.", "faulthandler", "sys.addaudithook", "function.__new__",
                  "setopencodehook", "mmap.__new__")


def _summ(name, args):
    try:
        if name == "import":
            return (args[0],)
        if name == "exec":
            co = args[0]
            names = tuple(getattr(co, "co_names", ()))[:30]
            consts = tuple(c for c in getattr(co, "co_consts", ()) if isinstance(c, str))[:10]
            return (getattr(co, "co_filename", "?"), getattr(co, "co_name", "?"), names, consts)
        if name == "compile":
            return (args[1] if len(args) > 1 else None,)
        if name == "open":
            p = args[0]
            if isinstance(p, bytes):
                p = p.decode("utf-8", "replace")
            return (p if isinstance(p, (str, int)) else repr(p), args[1], args[2])
        if name == "pickle.find_class":
            return (args[0], args[1])
        if name == "marshal.loads":
            return ()
        out = []
        for a in args[:4]:
            if isinstance(a, (str, int, float, type(None), bool)):
                out.append(a)
            elif isinstance(a, bytes):
                out.append(a[:200].decode("utf-8", "replace"))
            else:
                out.append(type(a).__name__ + ":" + repr(a)[:120])
        return tuple(out)
    except Exception:   # the hook must never raise by accident
        return ("<unsummarisable>",)


def _hook(name, args):
    global HOOK_CALLS, _FP_INDEX
    if not RECORDING:
        return
    if name.startswith(_IGNORE_PREFIX):
        return
    HOOK_CALLS += 1
    s = _summ(name, args)
    EVENTS.append((name, s))
    fp = FAILPOINT
    if fp is not None:
        idx = _FP_INDEX
        _FP_INDEX += 1
        exc = fp(name, s, idx)
        if exc is not None:
            EVENTS.append(("vp.failpoint", (name, idx)))
            raise exc


def install():
    global INSTALLED
    if INSTALLED:
        return
    sys.addaudithook(_hook)
    INSTALLED = True
    _neuter()


class Recording:
    """with Recording() as r: ...  -> r.events is the list of audit events raised inside."""

    def __init__(self, failpoint=None):
        self.failpoint = failpoint
        self.events = []

    def __enter__(self):
        global RECORDING, FAILPOINT, _FP_INDEX
        self._start = len(EVENTS)
        self._prev = (RECORDING, FAILPOINT, _FP_INDEX)
        FAILPOINT = self.failpoint
        _FP_INDEX = 0
        RECORDING = True
        return self

    def __exit__(self, *exc):
        global RECORDING, FAILPOINT, _FP_INDEX
        RECORDING, FAILPOINT, _FP_INDEX = self._prev
        self.events = EVENTS[self._start:]
        if not RECORDING:
            del EVENTS[:]
        return False


# ----------------------------------------------------------------------------------------
# Defence in depth: generated pickles name os.system & friends.  Nothing in the harness
# ever hands such a pickle to a real unpickler, but a broken tree under test might.
# Replace the process-spawning entry points by recorders.

def _mk_recorder(label, ret=0):
    def rec(*a, **k):
        RECORDER_HITS.append((label, repr(a)[:200]))
        if RECORDING:
            EVENTS.append(("vp.recorder", (label, repr(a)[:200])))
        return ret
    rec.__name__ = "vp_recorder_" + label.replace(".", "_")
    rec.__qualname__ = rec.__name__
    return rec


def _neuter():
    import subprocess  # noqa
    for n in ("system", "popen", "execv", "execve", "execvp", "execvpe", "execl", "execle",
              "execlp", "execlpe", "spawnv", "spawnve", "spawnl", "spawnle", "spawnlp",
              "spawnlpe", "spawnvp", "spawnvpe", "posix_spawn", "posix_spawnp", "fork",
              "forkpty"):
        if hasattr(os, n):
            setattr(os, n, _mk_recorder("os." + n))
    try:
        import posix
        for n in ("system", "execv", "execve", "posix_spawn", "posix_spawnp", "fork"):
            if hasattr(posix, n):
                setattr(posix, n, _mk_recorder("posix." + n))
    except ImportError:
        pass

    class _NoPopen:
        def __init__(self, *a, **k):
            RECORDER_HITS.append(("subprocess.Popen", repr(a)[:200]))
            if RECORDING:
                EVENTS.append(("vp.recorder", ("subprocess.Popen", repr(a)[:200])))
            raise PermissionError("vp: process spawning is disabled in monitored children")
    subprocess.Popen = _NoPopen
    for n in ("run", "call", "check_call", "check_output", "getoutput", "getstatusoutput"):
        setattr(subprocess, n, _mk_recorder("subprocess." + n))
    try:
        import socket
        socket.socket.connect = _mk_recorder("socket.connect", None)
        socket.socket.connect_ex = _mk_recorder("socket.connect_ex", 0)
    except Exception:
        pass

"""C14 - Edits through the sequence interface keep every derived view coherent."""
import io
import itertools

from vp import asm, gen, workload
from vp.core import h

CONFIG = dict(
    level="exploration",
    rule=("edit histories over the opcode-sequence interface (insert at several positions, item and "
          "slice assignment, item and slice deletion, append, extend, +=, pop, remove, reverse, "
          "clear-and-refill, extend / += / slice assignment from iterables that fail half-way, and the five "
          "injection helpers), bounded-exhaustive up to the tier's length "
          "from natural and assembled starting pickles plus seeded random histories of length 30; all "
          "views are read after *every* step (which also fills the caches before the next edit) and "
          "compared with a freshly constructed Pickled(list(p)) and with a pickle built from opcode objects "
          "re-created from their constructor arguments; dumps() is compared with the "
          "concatenation of the opcodes' data.  A case is one distinct (start, history); non-trivial = "
          "at least one edit whose fresh views differ from the views read just before it (a stale cache "
          "would be observable)."),
    assumptions=[
        "a view that raises is compared by exception type with the fresh object's",
        "opcode objects are shared between the edited and the fresh Pickled (they are immutable here)",
    ],
    min_nontrivial={"quick": 1000, "thorough": 20000},
    nshards={"quick": 8, "thorough": 16},
    timeout={"quick": 600, "thorough": 3600},
    required_counters=("steps_compared", "observable_edits", "other_thread_reads"),
)

# opcodes whose arguments compare equal in Python yet mean different values (1 == True, 0.0 == -0.0, 1 == 1.0)
TWINS = [(b"I1\n", b"I01\n"), (b"I0\n", b"I00\n"), (b"G\x00\x00\x00\x00\x00\x00\x00\x00", b"G\x80\x00\x00\x00\x00\x00\x00\x00"),
         (b"F0.0\n", b"F-0.0\n"), (b"I1\n", b"I1\n"), (b"L1L\n", b"L1L\n")]

EDITS = ["insert_big_constant", "set_twin", "del_insert_twin", "extend_failing", "iadd_failing", "set_slice_failing", "set_negative", "del_negative", "insert_negative",
         "set_stepped_slice", "del_stepped_slice", "pop_negative",
         "insert_mid", "insert_front", "insert_before_stop", "set_int", "set_slice", "del_int", "del_slice",
         "append", "extend", "iadd", "pop", "pop_i", "remove", "reverse", "clear_refill",
         "insert_python_first", "insert_python_last", "insert_python_replace", "append_python",
         "insert_magic_int", "insert_python_obj", "insert_fn_call"]


def views(p, analysis):
    from vp.diffengine import sdump

    def safe(fn):
        try:
            return fn()
        except RecursionError:
            return "EXC:RecursionError"
        except Exception as e:
            return "EXC:" + type(e).__name__
    return {
        "ast": safe(lambda: sdump(p.ast)),
        "properties": safe(lambda: (len(p.properties.imports), len(p.properties.calls),
                                    len(p.properties.non_setstate_calls),
                                    # (normally names; an AST node when the import target is not a plain name: compared
                                    #  by structure, never by identity)
                                    tuple(sorted(x if isinstance(x, str) else sdump(x) if hasattr(x, "_fields") else "<" + type(x).__name__ + ">"
                                                 for x in p.properties.likely_safe_imports)))),
        "has": safe(lambda: (p.has_import, p.has_call, p.has_non_setstate_call)),
        "imports": safe(lambda: (tuple(_modname(n) for n in p.unsafe_imports()),
                                 tuple(_modname(n) for n in p.non_standard_imports()))),
        "severity": safe(lambda: analysis.check_safety(p).severity.name),
        "nb": safe(lambda: (p.nb_opcodes, len(p))),
    }


def _modname(n):
    return n.module if isinstance(n.module, str) else "<" + type(n.module).__name__ + ">"


def opcode_pool(f):
    snippets = [b"K\x01", b"N", b"0", b"K\x02K\x030", b"cos\nsystem\n", b"cvp_sink\nhit\n", b"(", b"t", b"R",
                b"]", b"}", b"\x8c\x01a", b"c__builtin__\neval\n", b")", b"\x85", b"2", b"q\x05", b"h\x05",
                b"ccollections\nOrderedDict\n", b"\x80\x02", b"b",
                b"(ios\ngetpid\n", b"\x8c\x02os\x8c\x06getpid\x93", b"(ivp_sink\nK\n", b"\x8c\x07vp_sink\x8c\x03hit\x93"]
    pool = []
    for s in snippets:
        pool.append(list(f.Pickled.load(s + b"."))[:-1])
    return pool


def apply_edit(f, p, name, rng, pool, original):
    n = len(p)
    pick = lambda: rng.choice(pool)  # noqa: E731
    one = lambda: rng.choice(pick())  # noqa: E731
    def failing(k):
        ops = pick() + pick()
        for j, op in enumerate(ops):
            if j >= k:
                raise RuntimeError("vp: iterable failed half-way through the edit")
            yield op
    if name == "insert_big_constant":
        # an opcode larger than the usual I/O buffer sizes, between small ones
        size = rng.choice([8192, 20000, 65536, 70000])
        blob = (b"B" + size.to_bytes(4, "little") + b"y" * size) if rng.random() < 0.5 else \
            (b"X" + size.to_bytes(4, "little") + b"x" * size)
        big = f.Pickled.load(blob + b".")[0]
        i = rng.randint(0, n)
        p.insert(i, big)
        p.insert(i + 1, f.Pickled.load(b"0.")[0])
    elif name in ("set_twin", "del_insert_twin"):
        one_of = lambda b: f.Pickled.load(b + b".")[0]  # noqa: E731
        for i, op in enumerate(p):
            for a, b in TWINS:
                if a != b and op.data in (a, b):
                    new = one_of(b if op.data == a else a)
                    if name == "set_twin":
                        p[i] = new
                    else:
                        del p[i]
                        p.insert(i, new)
                    return
        # no such opcode yet: put one in (the next twin edit swaps it)
        a, b = rng.choice(TWINS)
        p.insert(rng.randint(0, n), one_of(rng.choice((a, b))))
    elif name == "extend_failing":
        p.extend(failing(rng.randint(1, 2)))
    elif name == "iadd_failing":
        p += failing(rng.randint(1, 2))
    elif name == "set_slice_failing":
        i = rng.randint(0, n)
        p[i:i + 1] = failing(rng.randint(1, 2))
    elif name == "set_negative":
        if n:
            p[-rng.randint(1, n)] = one()
    elif name == "del_negative":
        if n:
            del p[-rng.randint(1, n)]
    elif name == "insert_negative":
        p.insert(-rng.randint(1, max(1, n)), one())
    elif name == "pop_negative":
        if n:
            p.pop(-rng.randint(1, n))
    elif name == "set_stepped_slice":
        if n >= 2:
            k = len(range(n)[::2])
            p[::2] = [one() for _ in range(k)]
    elif name == "del_stepped_slice":
        if n >= 2:
            del p[1::2]
    elif name == "insert_mid":
        p.insert(rng.randint(0, n), one())
    elif name == "insert_front":
        p.insert(0, one())
    elif name == "insert_before_stop":
        p.insert(-1, one())
    elif name == "set_int":
        if n:
            p[rng.randrange(n)] = one()
    elif name == "set_slice":
        i = rng.randint(0, n)
        p[i:i + rng.randint(0, 2)] = pick()
    elif name == "del_int":
        if n:
            del p[rng.randrange(n)]
    elif name == "del_slice":
        i = rng.randint(0, n)
        del p[i:i + rng.randint(0, 2)]
    elif name == "append":
        p.append(one())
    elif name == "extend":
        p.extend(pick())
    elif name == "iadd":
        p += pick()
    elif name == "pop":
        if n:
            p.pop()
    elif name == "pop_i":
        if n:
            p.pop(rng.randrange(n))
    elif name == "remove":
        if n:
            p.remove(p[rng.randrange(n)])
    elif name == "reverse":
        p.reverse()
    elif name == "clear_refill":
        p.clear()
        p.extend(original)
    elif name == "insert_python_first":
        p.insert_python("1+1", run_first=True)
    elif name == "insert_python_last":
        p.insert_python("1+1", run_first=False)
    elif name == "insert_python_replace":
        p.insert_python("x", module="vp_sink", attr="hit", run_first=True, use_output_as_unpickle_result=True)
    elif name == "append_python":
        p.append_python("2+2", pop_result=rng.random() < 0.5)
    elif name == "insert_magic_int":
        p.insert_magic_int(rng.choice([0, 7, 99999]), index=rng.choice([-1, 0, 1]))
    elif name == "insert_python_obj":
        p.insert_python_obj(rng.randint(0, n), rng.choice([[1, "a"], {"k": [1]}, "s", 5]))
        p.insert(-1, f.Pickled.load(b"0.")[0]) if rng.random() < 0.5 else None
    elif name == "insert_fn_call":
        p.insert_function_call_on_unpickled_object("def vpf(obj):\n    return obj\n")
    else:
        raise ValueError(name)


def run_history(ctx, f, analysis, start_label, start, history, hseed):
    agg = ctx.agg
    key = h(start + b"|" + ",".join(history).encode() + b"|" + str(hseed).encode())
    rng = asm.rng_for(ctx.seed, "c14" + key)
    pool = opcode_pool(f)
    try:
        p = f.Pickled.load(start)
    except Exception:
        return
    original = list(p)
    observable = 0
    prev = views(p, analysis)
    steps = []
    # a long-lived second thread that reads the views of the same object between the edits (a scanner's worker
    # thread handed the pickle once): what it reads after an edit made on this thread is judged like any other read
    reader = None
    if int(key[:2], 16) % 3 == 0:
        from concurrent.futures import ThreadPoolExecutor
        reader = ThreadPoolExecutor(max_workers=1)
        reader.submit(views, p, analysis).result()
    try:
        _run_steps(ctx, f, analysis, start_label, start, history, hseed, p, rng, pool, original, prev, steps, key, reader, observable)
    finally:
        if reader is not None:
            reader.shutdown(wait=True)


def _run_steps(ctx, f, analysis, start_label, start, history, hseed, p, rng, pool, original, prev, steps, key, reader, observable):
    agg = ctx.agg
    for name in history:
        try:
            apply_edit(f, p, name, rng, pool, original)
            outcome = "ok"
        except Exception as e:
            outcome = "EXC:" + type(e).__name__      # helper refused (e.g. no STOP at the end)
        steps.append(f"{name}:{outcome}")
        fresh = f.Pickled(list(p))
        want = views(fresh, analysis)
        got = views(p, analysis)
        agg.count("steps_compared")
        if want != prev:
            observable += 1
        bad = [k for k in want if want[k] != got[k]]
        if bad:
            agg.violation(f"stale-view:{bad[0]}:after-{name}",
                          f"after {name} the view '{bad[0]}' differs from a freshly constructed pickle with the same opcodes",
                          {"label": start_label, "hex": start.hex(), "history": history, "hseed": hseed, "steps": steps,
                           "edited": str(got[bad[0]])[:300], "fresh": str(want[bad[0]])[:300]})
            break
        if reader is not None:
            got_r = reader.submit(views, p, analysis).result()
            agg.count("other_thread_reads")
            bad = [k for k in want if want[k] != got_r[k]]
            if bad:
                agg.violation(f"stale-view:{bad[0]}:other-thread",
                              f"after {name} a second thread that had read the views before the edit reads '{bad[0]}' and gets "
                              f"something else than a freshly constructed pickle with the same opcodes gives",
                              {"label": start_label, "hex": start.hex(), "history": history, "hseed": hseed, "steps": steps,
                               "other_thread": str(got_r[bad[0]])[:300], "fresh": str(want[bad[0]])[:300]})
                break
        # and with a pickle whose opcode *objects* are re-created from their public constructor
        # arguments: state hidden on opcode instances cannot make the "fresh" side agree by accident
        try:
            rep = f.Pickled([type(op)(op.arg, op.pos, op._data) for op in p])
        except Exception:
            rep = None
        if rep is not None:
            agg.count("recreated_opcode_comparisons")
            want2 = views(rep, analysis)
            got2 = views(p, analysis)
            bad2 = [k for k in want2 if want2[k] != got2[k]]
            if bad2:
                agg.violation(f"view-differs-from-recreated-opcodes:{bad2[0]}:after-{name}",
                              f"after {name} the view '{bad2[0]}' differs from a pickle built from re-created, equal opcodes",
                              {"label": start_label, "hex": start.hex(), "history": history, "hseed": hseed, "steps": steps,
                               "edited": str(got2[bad2[0]])[:300], "recreated": str(want2[bad2[0]])[:300]})
                break
        cat = b"".join(op.data for op in p)
        buf = io.BytesIO()
        try:
            p.dump(buf)
        except Exception as e:
            buf = io.BytesIO(b"EXC:" + type(e).__name__.encode())
        if buf.getvalue() != cat:
            agg.violation(f"dump-file-not-concatenation:after-{name}",
                          "dump(file) writes something else than the concatenation of the current opcodes' encodings in order",
                          {"label": start_label, "hex": start.hex(), "history": history, "hseed": hseed, "steps": steps,
                           "written_len": len(buf.getvalue()), "expected_len": len(cat)})
            break
        if p.dumps() != cat or fresh.dumps() != cat:
            agg.violation(f"dumps-not-concatenation:after-{name}", "dumps() differs from the concatenation of opcode data",
                          {"label": start_label, "hex": start.hex(), "history": history, "hseed": hseed, "steps": steps})
            break
        prev = got
    agg.count("observable_edits", observable)
    agg.case(key, observable > 0, {"start": start_label, "start_ops": gen.op_names(start)[:10] if gen.op_names(start) else None,
                                   "steps": steps})


def starts(ctx):
    import pickle
    import vp_sink
    k = vp_sink.K()
    k.a = [1, 2]
    vals = [[1, 2, 3], {"a": (1, 2)}, k, [vp_sink.KReduce(1), {3}], "text", (None, True)]
    out = []
    for v in vals:
        for proto in (0, 2, 4):
            out.append((f"nat-p{proto}", pickle.dumps(v, proto)))
    out.append(("asm-call", b"cvp_sink\nhit\n(K\x01tR."))
    out.append(("asm-os", b"cos\nsystem\n(S'echo vp'\ntR."))
    out.append(("asm-inst", b"(K\x01ivp_sink\nK\n."))
    out.append(("asm-memo", b"]q\x00K\x01ah\x00\x86."))
    out.append(("asm-twin-int", b"(I1\nI0\nt."))
    out.append(("asm-twin-float", b"(G\x00\x00\x00\x00\x00\x00\x00\x00F0.0\nI00\nl."))
    if ctx.tier == "thorough":
        for i in range(40):
            out.append(("rand", asm.assemble(asm.random_program(asm.rng_for(ctx.seed, f"c14s{i}"), max_len=15, unsupported_p=0))))
    return out


def all_histories(ctx):
    L = {"quick": 2, "thorough": 3}[ctx.tier]
    st = starts(ctx)
    idx = 0
    for si, (label, data) in enumerate(st):
        for n in range(1, L + 1):
            if n == L and ctx.tier == "thorough" and si % 4 != 0:
                continue        # deepest level on a deterministic subset of the starts
            for hist in itertools.product(EDITS, repeat=n):
                idx += 1
                if idx % ctx.nshards == ctx.shard:
                    yield label, data, list(hist), 0
    nrand = {"quick": 600, "thorough": 12000}[ctx.tier]
    for i in range(nrand):
        if i % ctx.nshards != ctx.shard:
            continue
        rng = asm.rng_for(ctx.seed, f"c14h{i}")
        label, data = rng.choice(st)
        yield label, data, [rng.choice(EDITS) for _ in range(rng.choice([5, 12, 30]))], i + 1


def file_backed(ctx, f, analysis):
    """The same pickle parsed from a file object and from bytes, then the file is overwritten / removed and the working
    directory changes: the two objects stay interchangeable under the same edits (what was parsed is what is kept)."""
    import os
    import pickle
    agg = ctx.agg
    blobs = [pickle.dumps({"step": 1, "weights": b"w" * 70000, "tail": [1, 2]}, 2), pickle.dumps(["x" * 66000, {"k": b"y" * 9000}], 4),
             b"(K\x01B" + (131072).to_bytes(4, "little") + b"z" * 131072 + b"K\x02t."]
    for bi, data in enumerate(blobs):
        for spelling in ("absolute", "relative"):
            key = h(f"file-backed|{bi}|{spelling}".encode())
            if not ctx.mine(key.encode()) or not agg.case(key, True, {"start": "file-backed", "spelling": spelling, "bytes": len(data)}):
                continue
            d1 = os.path.join(ctx.scratch, "c14_dir_a")
            d2 = os.path.join(ctx.scratch, "c14_dir_b")
            os.makedirs(d1, exist_ok=True)
            os.makedirs(d2, exist_ok=True)
            path = os.path.join(d1, "ckpt.pkl")
            with open(path, "wb") as fh:
                fh.write(data)
            with open(os.path.join(d2, "ckpt.pkl"), "wb") as fh:
                fh.write(b"\x80\x02N." + b"\x00" * len(data))
            os.chdir(d1)
            try:
                with open("ckpt.pkl" if spelling == "relative" else path, "rb") as fh:
                    p = f.Pickled.load(fh)
                q = f.Pickled.load(data)
                with open(path, "wb") as fh:          # the file is written over (saving in place starts like this) ...
                    fh.write(b"\x80\x02N.")
                os.chdir(d2)                            # ... and the process moves on
                steps = [lambda x: None, lambda x: x.insert_python_exec("v = 1"), lambda x: x.insert(2, f.Pickled.load(b"K\x07.")[0]),
                         lambda x: x.insert(3, f.Pickled.load(b"0.")[0]), lambda x: x.__delitem__(2), lambda x: x.append_python("1", pop_result=True)]
                for si, step in enumerate(steps):
                    step(p)
                    step(q)
                    agg.count("file_backed_steps")
                    vp_, vq = views(p, analysis), views(q, analysis)
                    buf = io.BytesIO()
                    p.dump(buf)
                    if p.dumps() != q.dumps() or buf.getvalue() != q.dumps() or vp_ != vq:
                        agg.violation("file-backed-object-differs",
                                      f"a pickle parsed from a file ({spelling} name) and the same bytes parsed from memory differ after "
                                      f"step {si} once the file was overwritten and the working directory changed "
                                      f"(dumps {len(p.dumps())} vs {len(q.dumps())} bytes)",
                                      {"label": "file-backed", "hex": data[:200].hex(), "history": ["file-backed", spelling], "step": si})
                        break
            finally:
                os.chdir(ctx.scratch)
                for pth in (path, os.path.join(d2, "ckpt.pkl")):
                    if os.path.exists(pth):
                        os.remove(pth)


def run_shard(ctx):
    import fickling.fickle as f
    import fickling.analysis as analysis
    file_backed(ctx, f, analysis)
    for label, data, hist, hseed in all_histories(ctx):
        run_history(ctx, f, analysis, label, data, hist, hseed)


def replay(ctx, payload):
    import fickling.fickle as f
    import fickling.analysis as analysis
    c = payload["case"]
    run_history(ctx, f, analysis, c.get("label", "replay"), bytes.fromhex(c["hex"]), c["history"], c.get("hseed", 0))

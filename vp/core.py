"""Parent-side plumbing: shards, aggregation, known findings, verdicts, evidence."""
import hashlib
import json
import os
import shutil
import subprocess
import sys
import time
import zlib
from collections import Counter

ROOT = os.path.dirname(os.path.dirname(os.path.abspath(__file__)))
REPO = os.path.abspath(os.environ.get("VERIF_REPO", "/repo"))
PY = os.environ.get("VERIF_PYTHON", "/venv/bin/python")
DEPS = os.path.join(ROOT, ".deps")
WORK = os.path.join(ROOT, ".work")
NCPU = min(16, os.cpu_count() or 4)


def tier_from_env(default="quick"):
    return os.environ.get("VERIF_TIER", default)


def seed_from_env():
    try:
        return int(os.environ.get("VERIF_SEED", "0"))
    except ValueError:
        return 0


def h(b):
    if isinstance(b, str):
        b = b.encode("utf-8", "surrogatepass")
    return hashlib.sha1(b).hexdigest()[:16]


def shard_of(b, n):
    if isinstance(b, str):
        b = b.encode("utf-8", "surrogatepass")
    return zlib.crc32(b) % n


# ----------------------------------------------------------------------------------------
# child-side aggregator

class Agg:
    """Per-shard aggregation of what the monitors observed.  Everything is a measured count."""

    MAX_WITNESS = 3
    MAX_SAMPLES = 6

    def __init__(self):
        self.evaluations = 0
        self.counters = Counter()
        self.hists = {}
        self.violations = {}
        self.samples = []
        self._nontrivial = set()
        self._seen = set()
        self.inconclusive = []
        self.notes = []

    def case(self, case_hash, nontrivial, sample=None):
        """Register one executed case; returns False if this exact case was seen before."""
        self.evaluations += 1
        new = case_hash not in self._seen
        if new:
            self._seen.add(case_hash)
        if nontrivial and case_hash not in self._nontrivial:
            self._nontrivial.add(case_hash)
            if sample is not None and len(self.samples) < self.MAX_SAMPLES:
                self.samples.append(sample)
        return new

    def count(self, name, n=1):
        self.counters[name] += n

    def hist(self, name, key, n=1):
        self.hists.setdefault(name, Counter())[str(key)] += n

    def violation(self, key, what, witness):
        v = self.violations.setdefault(key, {"count": 0, "what": what, "witnesses": []})
        v["count"] += 1
        if len(v["witnesses"]) < self.MAX_WITNESS:
            if isinstance(witness, dict) and "environment" not in witness:
                witness = dict(witness, environment=os.environ.get("VERIF_ENVIRONMENT", "default"))
            v["witnesses"].append(witness)

    def to_json(self):
        return {
            "evaluations": self.evaluations,
            "distinct": len(self._seen),
            "distinct_nontrivial": len(self._nontrivial),
            "counters": dict(self.counters),
            "hists": {k: dict(v) for k, v in self.hists.items()},
            "violations": self.violations,
            "samples": self.samples,
            "inconclusive": self.inconclusive,
            "notes": self.notes,
        }


def merge(parts):
    out = {"evaluations": 0, "distinct": 0, "distinct_nontrivial": 0, "counters": Counter(),
           "hists": {}, "violations": {}, "samples": [], "inconclusive": [], "notes": []}
    for p in parts:
        out["evaluations"] += p["evaluations"]
        out["distinct"] += p["distinct"]
        out["distinct_nontrivial"] += p["distinct_nontrivial"]
        out["counters"].update(p["counters"])
        for k, v in p["hists"].items():
            out["hists"].setdefault(k, Counter()).update(v)
        for k, v in p["violations"].items():
            o = out["violations"].setdefault(k, {"count": 0, "what": v["what"], "witnesses": []})
            o["count"] += v["count"]
            for w in v["witnesses"]:
                if len(o["witnesses"]) < Agg.MAX_WITNESS:
                    o["witnesses"].append(w)
        for s in p["samples"]:
            if len(out["samples"]) < 8:
                out["samples"].append(s)
        out["inconclusive"].extend(p["inconclusive"])
        out["notes"].extend(p.get("notes", []))
    out["counters"] = dict(out["counters"])
    out["hists"] = {k: dict(v) for k, v in out["hists"].items()}
    return out


# ----------------------------------------------------------------------------------------
# running children

def ensure_deps():
    if not os.path.exists(os.path.join(DEPS, ".ok")):
        r = subprocess.run(["/bin/sh", os.path.join(ROOT, "setup.sh")], capture_output=True, text=True)
        if r.returncode != 0:
            sys.stderr.write(r.stdout + r.stderr)
            raise SystemExit(2)


def child_env(extra=None, hashseed="0"):
    env = dict(os.environ)
    env["PYTHONPATH"] = os.pathsep.join([REPO, ROOT, DEPS])
    env["PYTHONHASHSEED"] = str(hashseed)
    env["PYTHONDONTWRITEBYTECODE"] = "1"
    env["VERIF_REPO"] = REPO
    env["FICKLING_VERIF"] = "1"
    env.setdefault("OMP_NUM_THREADS", "1")
    env.setdefault("MKL_NUM_THREADS", "1")
    env["PIP_NO_INDEX"] = "1"
    if extra:
        env.update(extra)
    return env


# Process-level circumstances that are not part of any input: each shard of a run gets one of them (rotated by
# the seed), so every check sees every circumstance on a share of its cases at no extra cost.
ENVIRONMENTS = [
    ("default", {}),
    ("assertions-off", {"PYTHONOPTIMIZE": "1"}),
    ("c-locale-ascii", {"LC_ALL": "C", "LANG": "C", "PYTHONUTF8": "0", "PYTHONCOERCECLOCALE": "0"}),
    # the application has switched debug logging on (root logger at DEBUG with a handler that formats every record):
    # applied by vp.childmain before the shard runs
    ("debug-logging", {"VERIF_LOGGING": "DEBUG"}),
    ("no-int-str-limit", {"PYTHONINTMAXSTRDIGITS": "0", "PYTHONSAFEPATH": "1"}),
]


def environment_of(shard, seed):
    if os.environ.get("VERIF_SINGLE_ENVIRONMENT") == "1":
        return ENVIRONMENTS[0]
    return ENVIRONMENTS[(int(shard) + int(seed)) % len(ENVIRONMENTS)]


def run_shards(prop, tier, seed, nshards, mode="run", payload=None, timeout=3600, env=None,
               hashseed="0"):
    """Start nshards monitored children for property `prop`; returns list of agg dicts.
    A child that dies or times out contributes an `inconclusive` entry, never a verdict."""
    ensure_deps()
    run_dir = os.path.join(WORK, f"{prop}-{os.getpid()}-{int(time.time()*1000) % 100000}")
    os.makedirs(run_dir, exist_ok=True)
    procs = []
    try:
        for s in range(nshards):
            sd = os.path.join(run_dir, f"s{s}")
            os.makedirs(sd, exist_ok=True)
            out = os.path.join(run_dir, f"out{s}.json")
            cmd = [PY, "-X", "faulthandler", "-m", "vp.childmain", prop, tier, str(seed),
                   str(s), str(nshards), out, mode]
            pl = None
            if payload is not None:
                pl = os.path.join(run_dir, f"payload{s}.json")
                with open(pl, "w") as f:
                    json.dump(payload, f)
                cmd.append(pl)
            log = open(os.path.join(run_dir, f"log{s}.txt"), "wb")
            ename, eenv = environment_of(s, seed) if mode == "run" else ENVIRONMENTS[0]
            if mode == "replay" and isinstance(payload, dict) and isinstance(payload.get("case"), dict):
                want = payload["case"].get("environment")
                ename, eenv = next(((n, e) for n, e in ENVIRONMENTS if n == want), ENVIRONMENTS[0])
            cenv = child_env(dict(eenv, VERIF_ENVIRONMENT=ename, **(env or {})), hashseed)
            p = subprocess.Popen(cmd, cwd=sd, env=cenv, stdout=log,
                                 stderr=subprocess.STDOUT, stdin=subprocess.DEVNULL)
            procs.append((s, p, out, log))
        parts = []
        deadline = time.time() + timeout
        for s, p, out, log in procs:
            try:
                rc = p.wait(timeout=max(1, deadline - time.time()))
            except subprocess.TimeoutExpired:
                p.kill()
                p.wait()
                rc = "timeout"
            log.close()
            if rc == 0 and os.path.exists(out):
                with open(out) as f:
                    parts.append(json.load(f))
            else:
                tail = b""
                try:
                    with open(os.path.join(run_dir, f"log{s}.txt"), "rb") as f:
                        tail = f.read()[-1500:]
                except OSError:
                    pass
                a = Agg().to_json()
                a["inconclusive"].append(f"shard {s} ended with {rc}: {tail.decode('utf-8', 'replace')}")
                parts.append(a)
        return parts
    finally:
        for _, p, _, _ in procs:
            if p.poll() is None:
                p.kill()
        shutil.rmtree(run_dir, ignore_errors=True)
        try:
            os.rmdir(WORK)
        except OSError:
            pass


# ----------------------------------------------------------------------------------------
# known findings, verdict, evidence

def load_known(prop):
    path = os.path.join(ROOT, "known_findings.json")
    if not os.path.exists(path):
        return {}, []
    with open(path) as f:
        data = json.load(f)
    known = {}
    fixed = []
    for e in data.get("findings", []):
        if e.get("property") != prop:
            continue
        if e.get("status") == "known":
            known[e["key"]] = e
        elif e.get("status") == "fixed":
            fixed.append(e)
    return known, fixed


def validate_evidence(ev):
    sys.path.insert(0, DEPS)
    try:
        import jsonschema
    except ImportError:
        return None
    finally:
        sys.path.pop(0)
    schema_path = "/root/.vp/EVIDENCE.schema.json"
    if not os.path.exists(schema_path):
        schema_path = os.path.join(ROOT, "tools", "EVIDENCE.schema.json")
    with open(schema_path) as f:
        schema = json.load(f)
    jsonschema.validate(ev, schema)
    return True


def finish(prop, tier, seed, merged, *, level, rule, assumptions, min_nontrivial, t0,
           coverage_extra=None, required_counters=()):
    """Turn merged observations into the three-valued verdict, write evidence, return exit code."""
    known, _fixed = load_known(prop)
    lines = []
    n_viol = 0
    seen_known = set()
    for key in sorted(merged["violations"]):
        v = merged["violations"][key]
        kk = match_known(key, known)
        if kk is not None:
            seen_known.add(kk)
            continue
        n_viol += 1
        rdir = os.path.join(ROOT, "replays" if os.environ.get("VERIF_NO_EVIDENCE") != "1" else ".work/mutant-replays", prop)
        os.makedirs(rdir, exist_ok=True)
        w = v["witnesses"][0] if v["witnesses"] else {}
        rp = os.path.join(rdir, h(json.dumps([key, w], sort_keys=True, default=str)) + ".json")
        with open(rp, "w") as f:
            json.dump({"property": prop, "key": key, "what": v["what"], "count": v["count"],
                       "tier": tier, "seed": seed, "case": w, "more_witnesses": v["witnesses"][1:]},
                      f, indent=1, default=str)
        lines.append(f"VIOLATION property={prop} replay={rp}")
        sys.stderr.write(f"  [{prop}] {key}: {v['what']} (x{v['count']})\n")
    for kk in sorted(known):
        e = known[kk]
        if kk in seen_known:
            lines.append(f"KNOWN-FINDING: property={prop} {kk}: {e.get('what', '')}")
        else:
            lines.append(f"KNOWN-FINDING-STALE: property={prop} {kk}: listed but not reproduced by this run")
    inconclusive = list(merged["inconclusive"])
    if merged["distinct_nontrivial"] < min_nontrivial:
        inconclusive.append(f"only {merged['distinct_nontrivial']} distinct non-trivial cases (< {min_nontrivial})")
    for c in required_counters:
        if merged["counters"].get(c, 0) == 0:
            inconclusive.append(f"deciding monitor counter '{c}' is zero: the monitor was never reached")
    cov = {
        "evaluations": merged["evaluations"],
        "distinct_nontrivial": merged["distinct_nontrivial"],
        "distinct_cases": merged["distinct"],
        "rule": rule,
        "samples": merged["samples"] or ["<none>"],
        "observed_counters": merged["counters"],
        "observed_histograms": {k: dict(sorted(v.items(), key=lambda kv: -kv[1])[:60])
                                for k, v in merged["hists"].items()},
        "violation_keys": {k: v["count"] for k, v in merged["violations"].items()},
        "known_finding_keys_seen": sorted(seen_known),
        "inconclusive_reasons": inconclusive[:10],
        "notes": merged["notes"][:20],
        "repo": REPO,
    }
    if coverage_extra:
        cov.update(coverage_extra)
    ev = {
        "property_id": prop,
        "tier": tier if tier in ("quick", "thorough") else "quick",
        "seed": seed,
        "level": level,
        "coverage": cov,
        "assumptions": assumptions,
        "wall_s": round(time.time() - t0, 2),
        "violations": n_viol,
    }
    os.makedirs(os.path.join(ROOT, "evidence"), exist_ok=True)
    try:
        validate_evidence(ev)
    except Exception as e:  # schema failure => inconclusive, still write what we have
        inconclusive.append(f"evidence does not validate: {str(e)[:300]}")
    if os.environ.get("VERIF_NO_EVIDENCE") != "1":     # set only by tools/mutant.py (scratch trees)
        with open(os.path.join(ROOT, "evidence", f"{prop}.json"), "w") as f:
            json.dump(ev, f, indent=1, default=str, sort_keys=True)
    for ln in lines:
        print(ln)
    if n_viol:
        print(f"RESULT property={prop} violated: {n_viol} unlisted mechanism(s); "
              f"{merged['evaluations']} evaluations")
        return 1
    if inconclusive:
        for r in inconclusive[:5]:
            print(f"INCONCLUSIVE property={prop} reason={r[:400]}")
        return 2
    print(f"RESULT property={prop} held on {merged['evaluations']} evaluations "
          f"({merged['distinct_nontrivial']} distinct non-trivial), tier={tier} seed={seed}")
    return 0


def match_known(key, known):
    """A violation key matches a listed finding iff equal, or the listed key ends with '*'
    and is a prefix (used only for families enumerated in DESIGN.md)."""
    if key in known:
        return key
    for kk in known:
        if kk.endswith("*") and key.startswith(kk[:-1]):
            return kk
    return None

"""Runtime-monitoring harness for trailofbits/fickling (see /verif/DESIGN.md)."""

"""Typed pickle-opcode assembler, independent of fickling.

A *symbol* is one concrete opcode (opcode byte + encoded argument) together with its effect on
an abstract stack of type tags.  The typing is used only to prune programs the pickle VM would
reject at once; whether a program is accepted is always *observed* on the reference VM.

Type tags: i int, s str, y bytes, n None/bool/float, t tuple, l list, d dict, e set,
f frozenset, g global, o object (result of a call), M mark.
"""
import pickle
import random
import struct

HASHABLE = set("isyntfgo")
VALUE = set("isyntldefgo")


class Sym:
    __slots__ = ("name", "data", "kind", "arg")

    def __init__(self, name, data, kind, arg=None):
        self.name = name      # display name, e.g. 'BINPUT(0)'
        self.data = data      # bytes
        self.kind = kind      # effect selector
        self.arg = arg

    def __repr__(self):
        return self.name


def _u8(n):
    return struct.pack("<B", n)


def _u32(n):
    return struct.pack("<I", n)


def _u64(n):
    return struct.pack("<Q", n)


def GLOBAL(mod, name):
    return Sym(f"GLOBAL({mod}.{name})", b"c" + mod.encode() + b"\n" + name.encode() + b"\n", "push", "g")


def INST(mod, name):
    return Sym(f"INST({mod}.{name})", b"i" + mod.encode() + b"\n" + name.encode() + b"\n", "inst")


def SBU(s):
    b = s.encode("utf-8", "surrogatepass")
    return Sym(f"SHORT_BINUNICODE({s!r})", b"\x8c" + _u8(len(b)) + b, "push", "s")


def BINUNICODE(s):
    b = s.encode("utf-8", "surrogatepass")
    return Sym(f"BINUNICODE({s!r})", b"X" + _u32(len(b)) + b, "push", "s")


def BINUNICODE8(s):
    b = s.encode("utf-8", "surrogatepass")
    return Sym(f"BINUNICODE8({s!r})", b"\x8d" + _u64(len(b)) + b, "push", "s")


def UNICODE(s):
    b = s.replace("\\", "\\u005c").replace("\0", "\\u0000").replace("\n", "\\u000a") \
         .replace("\r", "\\u000d").replace("\x1a", "\\u001a").encode("raw-unicode-escape")
    return Sym(f"UNICODE({s!r})", b"V" + b + b"\n", "push", "s")


def STRING(s):
    return Sym(f"STRING({s!r})", b"S" + repr(s).encode("ascii") + b"\n", "push", "s")


def BINSTRING(s):
    b = s.encode("latin-1")
    return Sym(f"BINSTRING({s!r})", b"T" + struct.pack("<i", len(b)) + b, "push", "s")


def SHORT_BINSTRING(s):
    b = s.encode("latin-1")
    return Sym(f"SHORT_BINSTRING({s!r})", b"U" + _u8(len(b)) + b, "push", "s")


def SHORT_BINBYTES(b):
    return Sym(f"SHORT_BINBYTES({b!r})", b"C" + _u8(len(b)) + b, "push", "y")


def BINBYTES(b):
    return Sym(f"BINBYTES({b!r})", b"B" + _u32(len(b)) + b, "push", "y")


def BINBYTES8(b):
    return Sym(f"BINBYTES8({b!r})", b"\x8e" + _u64(len(b)) + b, "push", "y")


def BYTEARRAY8(b):
    return Sym(f"BYTEARRAY8({b!r})", b"\x96" + _u64(len(b)) + b, "push", "y")


def BININT1(n):
    return Sym(f"BININT1({n})", b"K" + _u8(n), "push", "i")


def BININT2(n):
    return Sym(f"BININT2({n})", b"M" + struct.pack("<H", n), "push", "i")


def BININT(n):
    return Sym(f"BININT({n})", b"J" + struct.pack("<i", n), "push", "i")


def INT(n):
    return Sym(f"INT({n})", b"I" + str(n).encode() + b"\n", "push", "i")


def INT_BOOL(v):
    return Sym(f"INT(0{int(v)})", b"I0" + (b"1" if v else b"0") + b"\n", "push", "n")


def LONG(n):
    return Sym(f"LONG({n})", b"L" + str(n).encode() + b"L\n", "push", "i")


def LONG1(n):
    b = pickle.encode_long(n)
    return Sym(f"LONG1({n})", b"\x8a" + _u8(len(b)) + b, "push", "i")


def LONG4(n):
    b = pickle.encode_long(n)
    return Sym(f"LONG4({n})", b"\x8b" + struct.pack("<i", len(b)) + b, "push", "i")


def BINFLOAT(x):
    return Sym(f"BINFLOAT({x!r})", b"G" + struct.pack(">d", x), "push", "n")


def FLOAT(x):
    return Sym(f"FLOAT({x!r})", b"F" + repr(x).encode() + b"\n", "push", "n")


def BINPUT(k):
    return Sym(f"BINPUT({k})", b"q" + _u8(k), "put", k)


def LONG_BINPUT(k):
    return Sym(f"LONG_BINPUT({k})", b"r" + _u32(k), "put", k)


def PUT(k):
    return Sym(f"PUT({k})", b"p" + str(k).encode() + b"\n", "put", k)


def BINGET(k):
    return Sym(f"BINGET({k})", b"h" + _u8(k), "get", k)


def LONG_BINGET(k):
    return Sym(f"LONG_BINGET({k})", b"j" + _u32(k), "get", k)


def GET(k):
    return Sym(f"GET({k})", b"g" + str(k).encode() + b"\n", "get", k)


def PROTO(n):
    return Sym(f"PROTO({n})", b"\x80" + _u8(n), "nop")


def EXT1(n):
    return Sym(f"EXT1({n})", b"\x82" + _u8(n), "push", "o")


NONE = Sym("NONE", b"N", "push", "n")
NEWTRUE = Sym("NEWTRUE", b"\x88", "push", "n")
NEWFALSE = Sym("NEWFALSE", b"\x89", "push", "n")
EMPTY_LIST = Sym("EMPTY_LIST", b"]", "push", "l")
EMPTY_DICT = Sym("EMPTY_DICT", b"}", "push", "d")
EMPTY_TUPLE = Sym("EMPTY_TUPLE", b")", "push", "t")
EMPTY_SET = Sym("EMPTY_SET", b"\x8f", "push", "e")
MARK = Sym("MARK", b"(", "push", "M")
LIST = Sym("LIST", b"l", "list")
DICT = Sym("DICT", b"d", "dict")
TUPLE = Sym("TUPLE", b"t", "tuple")
TUPLE1 = Sym("TUPLE1", b"\x85", "tuplen", 1)
TUPLE2 = Sym("TUPLE2", b"\x86", "tuplen", 2)
TUPLE3 = Sym("TUPLE3", b"\x87", "tuplen", 3)
FROZENSET = Sym("FROZENSET", b"\x91", "frozenset")
APPEND = Sym("APPEND", b"a", "append")
APPENDS = Sym("APPENDS", b"e", "appends")
SETITEM = Sym("SETITEM", b"s", "setitem")
SETITEMS = Sym("SETITEMS", b"u", "setitems")
ADDITEMS = Sym("ADDITEMS", b"\x90", "additems")
STACK_GLOBAL = Sym("STACK_GLOBAL", b"\x93", "stack_global")
REDUCE = Sym("REDUCE", b"R", "reduce")
OBJ = Sym("OBJ", b"o", "obj")
NEWOBJ = Sym("NEWOBJ", b"\x81", "newobj")
NEWOBJ_EX = Sym("NEWOBJ_EX", b"\x92", "newobj_ex")
BUILD = Sym("BUILD", b"b", "build")
BINPERSID = Sym("BINPERSID", b"Q", "binpersid")
POP = Sym("POP", b"0", "pop")
POP_MARK = Sym("POP_MARK", b"1", "pop_mark")
DUP = Sym("DUP", b"2", "dup")
MEMOIZE = Sym("MEMOIZE", b"\x94", "memoize")
STOP = Sym("STOP", b".", "stop")

CALL_KINDS = {"reduce", "obj", "inst", "newobj", "newobj_ex", "build", "binpersid"}
MARKMEMO_KINDS = {"put", "get", "memoize", "list", "dict", "tuple", "frozenset", "appends",
                  "setitems", "additems", "obj", "inst", "pop_mark"}


def _find_mark(stack):
    for i in range(len(stack) - 1, -1, -1):
        if stack[i] == "M":
            return i
    return -1


def apply(sym, stack, memo):
    """Abstract effect; returns (stack, memo) or None when ill-typed.  stack is a str of tags,
    memo a tuple-sorted dict copy (we pass plain dicts and copy on write)."""
    k = sym.kind
    if k == "push":
        return stack + sym.arg, memo
    if k == "nop":
        return stack, memo
    n = len(stack)
    if k in ("list", "tuple", "frozenset", "dict", "pop_mark", "inst"):
        m = _find_mark(stack)
        if m < 0:
            return None
        items = stack[m + 1:]
        if k == "pop_mark":
            return stack[:m], memo
        if k == "list":
            return stack[:m] + "l", memo
        if k == "tuple":
            return stack[:m] + "t", memo
        if k == "inst":
            return stack[:m] + "o", memo
        if k == "frozenset":
            if any(c not in HASHABLE for c in items):
                return None
            return stack[:m] + "f", memo
        if k == "dict":
            if len(items) % 2 or any(c not in HASHABLE for c in items[0::2]):
                return None
            return stack[:m] + "d", memo
    if k == "tuplen":
        a = sym.arg
        if n < a or "M" in stack[n - a:]:
            return None
        return stack[:n - a] + "t", memo
    if k == "append":
        if n < 2 or stack[-1] == "M" or stack[-2] != "l":
            return None
        return stack[:-1], memo
    if k == "appends":
        m = _find_mark(stack)
        if m < 1 or stack[m - 1] != "l":
            return None
        return stack[:m], memo
    if k == "setitem":
        if n < 3 or stack[-3] != "d" or stack[-2] not in HASHABLE or stack[-1] == "M":
            return None
        return stack[:-2], memo
    if k == "setitems":
        m = _find_mark(stack)
        if m < 1 or stack[m - 1] != "d":
            return None
        items = stack[m + 1:]
        if len(items) % 2 or any(c not in HASHABLE for c in items[0::2]):
            return None
        return stack[:m], memo
    if k == "additems":
        m = _find_mark(stack)
        if m < 1 or stack[m - 1] != "e":
            return None
        if any(c not in HASHABLE for c in stack[m + 1:]):
            return None
        return stack[:m], memo
    if k == "stack_global":
        if n < 2 or stack[-1] != "s" or stack[-2] != "s":
            return None
        return stack[:-2] + "g", memo
    if k in ("reduce", "newobj"):
        if n < 2 or stack[-1] != "t" or stack[-2] not in "go":
            return None
        return stack[:-2] + "o", memo
    if k == "newobj_ex":
        if n < 3 or stack[-1] != "d" or stack[-2] != "t" or stack[-3] not in "go":
            return None
        return stack[:-3] + "o", memo
    if k == "obj":
        m = _find_mark(stack)
        if m < 0 or m + 1 >= n or stack[m + 1] not in "go":
            return None
        return stack[:m] + "o", memo
    if k == "build":
        if n < 2 or stack[-2] != "o" or stack[-1] == "M":
            return None
        return stack[:-1], memo
    if k == "binpersid":
        if n < 1 or stack[-1] == "M":
            return None
        return stack[:-1] + "o", memo
    if k == "pop":
        if n < 1:
            return None
        return stack[:-1], memo
    if k == "dup":
        if n < 1 or stack[-1] == "M":
            return None
        return stack + stack[-1], memo
    if k == "put":
        if n < 1 or stack[-1] == "M":
            return None
        nm = dict(memo)
        nm[sym.arg] = stack[-1]
        return stack, nm
    if k == "memoize":
        if n < 1 or stack[-1] == "M":
            return None
        nm = dict(memo)
        nm[len(memo)] = stack[-1]
        return stack, nm
    if k == "get":
        if sym.arg not in memo:
            return None
        return stack + memo[sym.arg], memo
    if k == "stop":
        if n < 1 or stack[-1] == "M":
            return None
        return stack, memo
    raise AssertionError(k)


# the bounded-exhaustive alphabet: one constant per scalar type, two memo slots
ALPHABET = [
    NONE, BININT1(1), SBU("a"),
    EMPTY_LIST, EMPTY_DICT, EMPTY_TUPLE, EMPTY_SET, MARK,
    LIST, DICT, TUPLE, TUPLE1, TUPLE2, TUPLE3, FROZENSET,
    APPEND, APPENDS, SETITEM, SETITEMS, ADDITEMS,
    GLOBAL("vp_sink", "hit"), STACK_GLOBAL, INST("vp_sink", "K"),
    REDUCE, OBJ, NEWOBJ, NEWOBJ_EX, BUILD, BINPERSID,
    POP, POP_MARK, DUP,
    BINPUT(0), BINPUT(1), MEMOIZE, BINGET(0), BINGET(1),
]


def prefixes(depth=2, max_stack=6):
    """All well-typed prefixes of exactly `depth` symbols (the sharding unit)."""
    out = []

    def rec(seq, stack, memo):
        if len(seq) == depth:
            out.append((tuple(seq), stack, memo))
            return
        for s in ALPHABET:
            r = apply(s, stack, memo)
            if r is None or len(r[0]) > max_stack:
                continue
            seq.append(s)
            rec(seq, r[0], r[1])
            seq.pop()
    rec([], "", {})
    return out


def enumerate_programs(max_len, prefix=((), "", {}), max_stack=6, need=None):
    """Yield (symbols tuple incl. STOP) for every well-typed program that extends `prefix`
    and has at most max_len symbols before STOP.  `need`: optional set of kinds of which at
    least one must occur (used to restrict the deepest level)."""
    seq = list(prefix[0])

    def rec(stack, memo, has):
        if seq and stack and stack[-1] != "M" and (need is None or has):
            yield tuple(seq) + (STOP,)
        if len(seq) >= max_len:
            return
        for s in ALPHABET:
            r = apply(s, stack, memo)
            if r is None or len(r[0]) > max_stack:
                continue
            seq.append(s)
            yield from rec(r[0], r[1], has or (need is not None and s.kind in need))
            seq.pop()
    has0 = need is not None and any(s.kind in need for s in seq)
    yield from rec(prefix[1], prefix[2], has0)


def assemble(syms):
    return b"".join(s.data for s in syms)


def names(syms):
    return [s.name for s in syms]


# ----------------------------------------------------------------------------------------
# random long programs over a wider alphabet

WIDE_CONSTS = [
    NONE, NEWTRUE, NEWFALSE, INT_BOOL(True), BININT1(0), BININT1(255), BININT2(256), BININT2(65535),
    BININT(-1), BININT(2**31 - 1), BININT(-2**31), INT(7), INT(-123456789012), LONG(2**70),
    LONG1(0), LONG1(-1), LONG1(2**63), LONG4(-2**100), BINFLOAT(1.5), BINFLOAT(-0.0),
    SBU(""), SBU("k"), SBU("\u00e9\u4e2d\U0001f600"), BINUNICODE("long" * 70), BINUNICODE8("u8"),
    UNICODE("uni\\x\u00e9\nq"), STRING("st'r\"\\n"), BINSTRING("b\xe9s"), SHORT_BINSTRING("sbs"),
    SHORT_BINBYTES(b""), SHORT_BINBYTES(b"\x00\xff"), BINBYTES(b"bb" * 130), BINBYTES8(b"b8"),
]
WIDE_GLOBALS = [
    GLOBAL("vp_sink", "hit"), GLOBAL("vp_sink", "K"), GLOBAL("vp_other", "hit"),
    GLOBAL("__builtin__", "getattr"), GLOBAL("builtins", "exec"), GLOBAL("os", "system"),
    GLOBAL("collections", "OrderedDict"), GLOBAL("copy_reg", "_reconstructor"),
    INST("vp_sink", "K"), INST("vp_other", "K"), INST("__builtin__", "dict"),
]
WIDE_MEMO = [BINPUT(0), BINPUT(1), BINPUT(2), BINPUT(255), LONG_BINPUT(256), LONG_BINPUT(321987),
             PUT(3), PUT(1), MEMOIZE, MEMOIZE, BINGET(0), BINGET(1), BINGET(2), BINGET(255),
             LONG_BINGET(256), LONG_BINGET(321987), GET(3), GET(1)]
WIDE_STRUCT = [EMPTY_LIST, EMPTY_DICT, EMPTY_TUPLE, EMPTY_SET, MARK, MARK, LIST, DICT, TUPLE, TUPLE1,
               TUPLE2, TUPLE3, FROZENSET, APPEND, APPENDS, SETITEM, SETITEMS, ADDITEMS,
               STACK_GLOBAL, REDUCE, REDUCE, OBJ, NEWOBJ, NEWOBJ_EX, BUILD, BINPERSID, POP, POP_MARK,
               DUP]
UNSUPPORTED = [FLOAT(2.5), BYTEARRAY8(b"ba"), EXT1(1)]


def random_program(rng, max_len=40, unsupported_p=0.02, max_stack=10):
    """Typed random walk.  Returns tuple of symbols ending in STOP."""
    seq = []
    stack, memo = "", {}
    if rng.random() < 0.5:
        seq.append(PROTO(rng.choice([0, 1, 2, 3, 4, 5])))
    n = rng.randint(3, max_len)
    tries = 0
    while len(seq) < n and tries < n * 12:
        tries += 1
        r = rng.random()
        if r < 0.28:
            s = rng.choice(WIDE_CONSTS)
        elif r < 0.38:
            s = rng.choice(WIDE_GLOBALS)
        elif r < 0.55:
            s = rng.choice(WIDE_MEMO)
        elif r < 0.55 + unsupported_p:
            s = rng.choice(UNSUPPORTED)
        else:
            s = rng.choice(WIDE_STRUCT)
        res = apply(s, stack, memo)
        if res is None or len(res[0]) > max_stack:
            continue
        seq.append(s)
        stack, memo = res
    if not stack or stack[-1] == "M":
        seq.append(NONE)
    seq.append(STOP)
    return tuple(seq)


def rng_for(seed, salt):
    return random.Random(f"{seed}:{salt}")

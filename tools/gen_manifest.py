#!/usr/bin/env python3
"""Regenerates MANIFEST.json from the per-property CONFIG blocks (kept valid at all times)."""
import importlib
import json
import os
import sys

ROOT = os.path.dirname(os.path.dirname(os.path.abspath(__file__)))
sys.path.insert(0, ROOT)

TITLES = {}
with open(os.path.join(ROOT, "properties.jsonl")) as f:
    for line in f:
        p = json.loads(line)
        TITLES[p["id"]] = p["title"]

ENGINES = [
    {"name": "child", "path": "vp/childmain.py, vp/monitor.py",
     "serves_properties": sorted(TITLES),
     "kind_free_text": "monitored child interpreters: sys.addaudithook recorder installed before fickling is imported, neutered process spawners, RLIMIT_AS, sharded by case hash"},
    {"name": "refvm", "path": "vp/refvm.py, vp/diffengine.py",
     "serves_properties": ["C03", "C04", "C05", "C08", "C09", "C18"],
     "kind_free_text": "reference pickle VM (CPython's pickle._Unpickler stepped one opcode at a time with inert stubs), executor for decompiled programs under the same stubs, canonical forms, lockstep comparison"},
    {"name": "gen", "path": "vp/asm.py, vp/gen.py, vp/workload.py",
     "serves_properties": sorted(TITLES),
     "kind_free_text": "typed opcode assembler (bounded-exhaustive + random), recursive value generator, labelled vocabulary, corruption"},
]

NOT_YET = "check not built yet in this round (planned, see DESIGN.md section 3)"


def main():
    checks = []
    na = []
    for pid in sorted(TITLES):
        try:
            mod = importlib.import_module("vp.props." + pid.lower())
        except ImportError:
            na.append({"property_id": pid, "reason": NOT_YET})
            continue
        cfg = mod.CONFIG
        checks.append({
            "property_id": pid,
            "quick_cmd": f"./check {pid} --tier quick",
            "thorough_cmd": f"./check {pid} --tier thorough",
            "evidence_file": f"evidence/{pid}.json",
            "replay_cmd_template": f"./check {pid} --replay {{path}}",
            "engine": cfg.get("engine", "child"),
            "level_claimed": {"category": cfg["level"], "text": cfg.get("level_text", cfg["rule"])[:1500],
                              "design_ref": f"DESIGN.md section 3 / {pid}"},
            "level_note": "; ".join(cfg["assumptions"])[:1500],
            "technique": cfg.get("technique", "runtime monitoring: oracle over observed executions"),
        })
    man = {
        "version": 1,
        "setup_cmd": "./setup.sh",
        "hooks": {
            "guard": "FICKLING_VERIF",
            "enable": "no source hooks are needed: every observation point is reached from outside (sys.addaudithook, sys.monitoring, attribute rebinding, public interpreter state); checks import /repo's working tree directly (PYTHONPATH=$VERIF_REPO, default /repo) and export FICKLING_VERIF=1",
            "baseline_off_cmd": "cd /repo && /venv/bin/python -m pytest -ra -q -p no:cacheprovider --timeout=900 --continue-on-collection-errors",
            "source_commits": [],
            "add_only": True,
        },
        "engines": ENGINES,
        "checks": checks,
        "notes": "All checks: exit 0 held / 1 VIOLATION / 2 INCONCLUSIVE. Genuine defects repaired by fix: commits in /repo and recorded findings are listed in known_findings.json; see DESIGN.md section 4 and 7.",
        "not_applicable": na,
    }
    with open(os.path.join(ROOT, "MANIFEST.json"), "w") as f:
        json.dump(man, f, indent=1)
    print(f"MANIFEST.json: {len(checks)} checks, {len(na)} not_applicable")


if __name__ == "__main__":
    main()

"""C11 - User allowlist additions do not outlive or leak beyond their activation."""
import copy
import io
import itertools
import pickle
import _pickle

from vp import asm
from vp.core import h

ORIG = (pickle.load, pickle.loads, _pickle.load, _pickle.loads)

CONFIG = dict(
    level="exploration",
    rule=("histories over {activate(additions) for four addition sets, deactivate, construct an unpickler "
          "instance with additions (three sets)} bounded-exhaustive up to the tier's length plus seeded random "
          "histories of length 30; additions name a new module (vp_sink.K) and new members of already listed "
          "modules (collections.Counter, argparse.Action).  After every step each probe global is loaded "
          "through pickle.loads / _pickle.load (against the current activation's additions while one is active; when none is, "
          "a still-mediating function must not permit anything outside BASE) and through a fresh unpickler instance "
          "without additions; outcomes are compared with the two-variable model (BASE, additions of the "
          "current activation / of that instance); a deep snapshot of ML_ALLOWLIST and the MLAllowlist static "
          "analysis' answer for a fixed pickle are compared with their values at import.  A case is one "
          "distinct history; non-trivial = it contains an addition to an already listed module followed by "
          "at least one more operation."),
    assumptions=[
        "BASE is the deep snapshot of fickling.ml.ML_ALLOWLIST taken right after import",
        "probe globals are harmless constructors / classes; nothing else is ever unpickled",
    ],
    min_nontrivial={"quick": 1500, "thorough": 50000},
    nshards={"quick": 8, "thorough": 16},
    timeout={"quick": 600, "thorough": 3600},
    required_counters=("reentrant_probes", "steps", "probes", "shared_stream_probes", "inactive_states_probed", "long_lived_probes", "snapshots_compared", "static_answers_compared"),
)

ADDSETS = {
    "none": [],
    "counter": ["collections.Counter"],
    "sinkK": ["vp_sink.K"],
    "mixed": ["collections.Counter", "argparse.Action", "vp_other.K"],
}
# two modules the built-in list does not know, each with a different member: nothing "crosses over"
ADDSETS["twonew"] = ["vp_sink.K", "vp_other.hit", "decimal.Decimal"]
# additions whose module part is a look-alike (fullwidth letter, ligature, fullwidth full stop) of a listed module
ADDSETS["lookalike"] = ["\uff43ollections.Counter", "\uff41rgparse.Action", "collections\uff0eCounter.x", "collec\ufb01ons.deque",
                        "\uff43ollections.deque"]
ADDSETS["variants"] = ["numpy._core.multiarray.scalar", "torch._utils._rebuild_qtensor", "collections.abc.Mapping",
                       "_io.StringIO", "copyreg.__newobj__", "__main__.Other"]
OPS = ["act:none", "act:counter", "act:sinkK", "act:mixed", "act:variants", "act:twonew", "act:lookalike", "deact", "inst:counter", "inst:sinkK",
       "inst:none", "inst:variants", "inst:twonew", "inst:lookalike"]

PROBES = {
    "collections.OrderedDict": b"ccollections\nOrderedDict\n)R.",      # in BASE
    "collections.Counter": b"ccollections\nCounter\n)R.",              # new member of a listed module
    "argparse.Action": b"cargparse\nAction\n.",                        # new member of a listed module
    "argparse.Namespace": b"cargparse\nNamespace\n)R.",                # in BASE
    "vp_sink.K": b"cvp_sink\nK\n.",                                    # new module
    "vp_other.K": b"cvp_other\nK\n.",                                  # new module
    "collections.deque": b"ccollections\ndeque\n)R.",                  # never added
    "vp_sink.hit": b"cvp_sink\nhit\n.",                                # never added (vp_other.hit / vp_sink.K are)
    "decimal.K": b"cdecimal\nK\n.", "vp_other.Decimal": b"cvp_other\nDecimal\n.", "decimal.hit": b"cdecimal\nhit\n.",
    # variant spellings / new members of other listed modules (resolved only, never called; a module that is
    # not installed simply fails to import *after* the allowlist decision, which still counts as allowed)
    "numpy._core.multiarray.scalar": b"cnumpy._core.multiarray\nscalar\n.",
    "numpy.core.multiarray.scalar": b"cnumpy.core.multiarray\nscalar\n.",
    "torch._utils._rebuild_qtensor": b"ctorch._utils\n_rebuild_qtensor\n.",
    "_io.StringIO": b"c_io\nStringIO\n.",
    "copyreg.__newobj__": b"ccopyreg\n__newobj__\n.",
    "__main__.Other": b"c__main__\nOther\n.",
}
STATIC_PICKLE = b"ccollections\nCounter\n)R."


def histories(ctx):
    L = {"quick": 4, "thorough": 5}[ctx.tier]
    idx = 0
    for n in range(1, L + 1):
        for hist in itertools.product(OPS, repeat=n):
            idx += 1
            if idx % ctx.nshards == ctx.shard:
                yield list(hist)
    for i in range({"quick": 200, "thorough": 4000}[ctx.tier]):
        if i % ctx.nshards != ctx.shard:
            continue
        rng = asm.rng_for(ctx.seed, f"c11h{i}")
        yield [rng.choice(OPS) for _ in range(30)]


def outcome(fn, U):
    try:
        fn()
        return "allowed"
    except U:
        return "blocked"
    except Exception as e:
        x, n = e, 0
        while x is not None and n < 5:
            if isinstance(x, U):
                return "blocked"
            x, n = (x.__cause__ or x.__context__), n + 1
        return "allowed"     # the allowlist let it through; the failure is the import / attribute lookup itself


def static_answer(mods):
    ml, hook, analysis, f, U = mods
    r = analysis.Analyzer([ml.MLAllowlist()]).analyze(f.Pickled.load(STATIC_PICKLE))
    return (r.severity.name, tuple(sorted(str(x.message) for x in r.results)))


def run_history(ctx, mods, base, static0, hist):
    ml, hook, analysis, f, U = mods
    agg = ctx.agg
    key = h(",".join(hist).encode())
    nontrivial = any(op.endswith((":counter", ":mixed")) and i + 1 < len(hist) for i, op in enumerate(hist))
    current = None     # additions of the active activation; None = environment not active
    w = {"history": hist}
    steps = []
    # one long-lived stream object holding all probes one after the other (a checkpoint file with several pickles kept
    # open across re-activations): hooked pickle.load reads the probe at its offset from this same object at every step
    offs, blob = {}, b""
    for g_, d_ in PROBES.items():
        offs[g_] = len(blob)
        blob += d_
    shared = io.BytesIO(blob)

    def allowed_by(adds, g):
        m, n = g.rsplit(".", 1)
        return (m in base and n in base[m]) or g in adds

    try:
        for op in hist:
            inst_adds = None
            if op.startswith("act:"):
                adds = ADDSETS[op[4:]]
                hook.activate_safe_ml_environment(also_allow=list(adds) if adds else None)
                current = list(adds)
            elif op == "deact":
                hook.deactivate_safe_ml_environment()
                current = None
            elif op.startswith("inst:"):
                inst_adds = ADDSETS[op[5:]]
            steps.append(op)
            agg.count("steps")
            shared_got = {}
            if current is not None:
                # (0) first of all, before anything else goes through the hooks in this step: every probe read from the
                # long-lived stream object (judged below, together with the other deliveries)
                for g in PROBES:
                    shared.seek(offs[g])
                    shared_got[g] = outcome(lambda: pickle.load(shared), U)
            for g, data in PROBES.items():
                # (1) an instance constructed with the step's additions (or a fresh one without any)
                adds_i = inst_adds if inst_adds is not None else []
                got = outcome(lambda: ml.FicklingMLUnpickler(io.BytesIO(data), also_allow=list(adds_i) or None).load(), U)
                want = "allowed" if allowed_by(adds_i, g) else "blocked"
                agg.count("probes")
                if got != want:
                    agg.violation(f"instance-allowlist:{'leak' if got == 'allowed' else 'over-blocked'}",
                                  f"unpickler instance with additions {adds_i} {got} {g}; model says {want} "
                                  f"(BASE + that instance's additions)", dict(w, steps=list(steps), probe=g))
                    return
                # (2) through the hooked module function while the environment is active
                if current is not None:
                    got = outcome(lambda: pickle.loads(data), U)
                    got2 = outcome(lambda: _pickle.load(io.BytesIO(data)), U)
                    got3 = shared_got[g]
                    want = "allowed" if allowed_by(current, g) else "blocked"
                    agg.count("probes", 3)
                    agg.count("shared_stream_probes")
                    if got != want or got2 != want or got3 != want:
                        agg.violation(f"active-allowlist:{'leak' if 'allowed' in (got, got2, got3) else 'over-blocked'}"
                                      + (":long-lived-stream" if got == got2 == want else ""),
                                      f"environment active with additions {current}: {g} is {got}/{got2}/{got3} (pickle.loads / "
                                      f"_pickle.load of a fresh stream / pickle.load from a stream object in use since the first step), model says {want}",
                                      dict(w, steps=list(steps), probe=g))
                        return
            if current is not None:
                # the step ends with a load from the long-lived stream that every activation permits
                shared.seek(offs["collections.OrderedDict"])
                outcome(lambda: pickle.load(shared), U)
            if current is None:
                # no activation is current: if something still mediates the module functions (a probe that no
                # activation ever allowed is blocked), it must not be carrying anybody's additions
                outs = {g: (outcome(lambda: pickle.loads(data), U), outcome(lambda: _pickle.load(io.BytesIO(data)), U))
                        for g, data in PROBES.items()}
                agg.count("probes", 2 * len(PROBES))
                agg.count("inactive_states_probed")
                for k in (0, 1):
                    if any(o[k] == "blocked" for o in outs.values()):
                        agg.count("mediated_while_inactive(C12)")
                        leaked = sorted(g for g, o in outs.items() if o[k] == "allowed" and not allowed_by([], g))
                        if leaked:
                            agg.violation("deactivated-additions-in-force",
                                          f"no activation is current, yet {('pickle.loads', '_pickle.load')[k]} still blocks "
                                          f"unlisted globals while permitting {leaked}: additions of a replaced or "
                                          f"deactivated activation remain in force",
                                          dict(w, steps=list(steps), leaked=leaked))
                            return
            if CUSTOM_BASE_PARAM and op.startswith("inst:"):
                # optional feature (absent from the pinned tree, exercised when a tree has it): a caller-supplied base
                # allowlist.  Additions given to one instance must not stay in that base for the next instance.
                hardened = {m: ml.ML_ALLOWLIST[m] for m in ("collections", "argparse") if m in ml.ML_ALLOWLIST}
                kw = {CUSTOM_BASE_PARAM: hardened}
                data = PROBES["collections.Counter"]
                first = outcome(lambda: ml.FicklingMLUnpickler(io.BytesIO(data), also_allow=["collections.Counter"], **kw).load(), U)
                second = outcome(lambda: ml.FicklingMLUnpickler(io.BytesIO(data), **kw).load(), U)
                agg.count("custom_base_probes", 2)
                if first != "allowed" or second != "blocked":
                    agg.violation("instance-allowlist:leak-through-custom-base",
                                  f"two unpickler instances sharing a caller-supplied base allowlist: with the addition "
                                  f"collections.Counter is {first}, the next instance without additions finds it {second}",
                                  dict(w, steps=list(steps)))
                    return
            agg.count("snapshots_compared")
            if ml.ML_ALLOWLIST != base:
                extra = {m: sorted(set(v) - set(base.get(m, {}))) for m, v in ml.ML_ALLOWLIST.items()
                         if set(v) - set(base.get(m, {}))}
                agg.violation("builtin-allowlist-mutated",
                              f"fickling.ml.ML_ALLOWLIST changed: {extra or 'entries removed/changed'}",
                              dict(w, steps=list(steps)))
                return
            agg.count("static_answers_compared")
            sa = static_answer(mods)
            if sa != static0:
                agg.violation("static-analysis-answer-changed",
                              f"MLAllowlist analysis of a fixed pickle answered {sa[0]} (was {static0[0]})",
                              dict(w, steps=list(steps)))
                return
    finally:
        pickle.load, pickle.loads, _pickle.load, _pickle.loads = ORIG
        # repair shared state so that one leaking history does not contaminate the next
        if ml.ML_ALLOWLIST != base:
            ml.ML_ALLOWLIST.clear()
            ml.ML_ALLOWLIST.update(copy.deepcopy(base))
        agg.case(key, nontrivial, {"history": hist})


CUSTOM_BASE_PARAM = None


def long_lived(ctx, mods, base):
    """Unpickler instances that stay in use (a stream of several pickles) while many other instances and activations
    with other additions come and go: each instance keeps exactly BASE + its own additions to the end."""
    ml, hook, analysis, f, U = mods
    agg = ctx.agg
    stream = PROBES["collections.OrderedDict"] + PROBES["collections.Counter"] + PROBES["vp_sink.K"] + PROBES["collections.OrderedDict"]
    for n_between in (0, 1, 7, 8, 9, 17, 40, 130):
        key = h(f"long-lived|{n_between}".encode())
        if not ctx.mine(key.encode()):
            continue
        agg.case(key, True, {"history": ["long-lived", n_between]})
        w = {"history": ["long-lived", f"others_between={n_between}"]}
        try:
            od = PROBES["collections.OrderedDict"]
            mk = lambda probe, adds: ml.FicklingMLUnpickler(io.BytesIO(od + PROBES[probe]), also_allow=adds)  # noqa: E731
            # one instance per later probe (a refused load leaves its stream in the middle of a pickle)
            insts = {"plain:Counter": mk("collections.Counter", None), "own:Counter": mk("collections.Counter", ["collections.Counter"]),
                     "plain:vp_sink.K": mk("vp_sink.K", None), "own:vp_sink.K": mk("vp_sink.K", ["collections.Counter"]),
                     "plain:OrderedDict": mk("collections.OrderedDict", None), "own:OrderedDict": mk("collections.OrderedDict", ["vp_other.K"]),
                     "own2:vp_other.K": mk("vp_other.K", ["vp_other.K"])}
            first = tuple(outcome(u.load, U) for u in insts.values())
            for k in range(n_between):
                adds = [["vp_sink.K", "fractions.Fraction"], ["vp_other.K"], ["collections.Counter", "vp_sink.K"], None][k % 4]
                outcome(lambda: ml.FicklingMLUnpickler(io.BytesIO(PROBES["vp_sink.K"]), also_allow=adds).load(), U)
                if k % 3 == 0:
                    hook.activate_safe_ml_environment(also_allow=adds)
                    outcome(lambda: pickle.loads(PROBES["vp_sink.K"]), U)
                    outcome(lambda: pickle.loads(PROBES["collections.Counter"]), U)
                    hook.deactivate_safe_ml_environment()
            got = {name: outcome(u.load, U) for name, u in insts.items()}
            want = {"plain:Counter": "blocked", "own:Counter": "allowed", "plain:vp_sink.K": "blocked", "own:vp_sink.K": "blocked",
                    "plain:OrderedDict": "allowed", "own:OrderedDict": "allowed", "own2:vp_other.K": "allowed"}
            first = ("allowed", "allowed") if all(x == "allowed" for x in first) else first
            agg.count("long_lived_probes", len(got))
            if first != ("allowed", "allowed") or got != want:
                bad = {k: v for k, v in got.items() if v != want[k]}
                agg.violation("instance-allowlist:changes-during-lifetime",
                              f"an unpickler in use across {n_between} other constructions / activations: {bad or first} "
                              f"(expected exactly BASE + its own additions throughout)", dict(w, got=got))
        finally:
            pickle.load, pickle.loads, _pickle.load, _pickle.loads = ORIG
            if ml.ML_ALLOWLIST != base:
                ml.ML_ALLOWLIST.clear()
                ml.ML_ALLOWLIST.update(copy.deepcopy(base))


def setup():
    global CUSTOM_BASE_PARAM
    import inspect
    import fickling  # noqa: F401
    import fickling.ml as ml
    for name in inspect.signature(ml.FicklingMLUnpickler.__init__).parameters:
        if name not in ("self", "file", "also_allow", "args", "kwargs") and "allow" in name:
            CUSTOM_BASE_PARAM = name
    import fickling.hook as hook
    import fickling.analysis as analysis
    import fickling.fickle as f
    from fickling.exception import UnsafeFileError
    return ml, hook, analysis, f, UnsafeFileError


class _Nested:
    def __init__(self, blob, adds):
        self.blob, self.adds = blob, adds

    def __reduce__(self):
        import vp_sink
        return (vp_sink.nested_load, (self.blob, self.adds))


def reentrant_instances(ctx, mods, base):
    """An allow-listing unpickler constructed while another one is loading (an allow-listed reconstructor that unpickles an
    embedded blob with additions of its own): each of the two permits the built-in list plus its *own* additions - the
    nested one does not see the enclosing one's, the enclosing one does not keep the nested one's."""
    import collections
    import vp_sink
    ml, hook, analysis, f, U = mods
    agg = ctx.agg
    counter = b"ccollections\nCounter\n."
    sinkk = b"cvp_sink\nK\n."
    cases = [
        # (label, outer additions, outer object, expected)
        ("nested-with-own-addition", ["vp_sink.nested_load"], _Nested(counter, ["collections.Counter"]), "allowed"),
        ("nested-does-not-see-outer-addition:new-member", ["vp_sink.nested_load", "collections.Counter"], _Nested(counter, None), "blocked"),
        ("nested-does-not-see-outer-addition:new-module", ["vp_sink.nested_load", "vp_sink.K"], _Nested(sinkk, None), "blocked"),
        ("outer-does-not-keep-nested-addition:new-member", ["vp_sink.nested_load"],
         (_Nested(counter, ["collections.Counter"]), collections.Counter), "blocked"),
        ("outer-does-not-keep-nested-addition:new-module", ["vp_sink.nested_load"],
         (_Nested(b"cvp_other\nK\n.", ["vp_other.K"]), __import__("vp_other").K), "blocked"),
        ("outer-keeps-its-own-after-nested", ["vp_sink.nested_load", "collections.Counter"],
         (_Nested(b"K\x01.", ["vp_other.K"]), collections.Counter), "allowed"),
    ]
    for label, adds, obj, want in cases:
        for proto in (2, 4):
            data = pickle.dumps(obj, proto)
            for via in ("instance", "hook"):
                key = h(repr(("reentrant", label, proto, via)).encode())
                if not agg.case(key, True, {"reentrant": label, "via": via, "protocol": proto}):
                    continue
                del vp_sink.LOG[:]
                try:
                    if via == "instance":
                        got = outcome(lambda: ml.FicklingMLUnpickler(io.BytesIO(data), also_allow=list(adds)).load(), U)
                    else:
                        hook.activate_safe_ml_environment(also_allow=list(adds))
                        got = outcome(lambda: pickle.loads(data), U)
                finally:
                    pickle.load, pickle.loads, _pickle.load, _pickle.loads = ORIG
                ran = any(e[0] == "nested_load" for e in vp_sink.LOG)
                del vp_sink.LOG[:]
                agg.count("reentrant_probes")
                if not ran:
                    agg.inconclusive.append(f"harness: the nested reconstructor never ran for {label}")
                    continue
                if got != want:
                    agg.violation(f"nested-instance-allowlist:{'leak' if got == 'allowed' else 'over-blocked'}",
                                  f"{label} ({via}, enclosing additions {adds}): {got}, model says {want}",
                                  {"reentrant": label, "via": via, "protocol": proto})
    if ml.ML_ALLOWLIST != base:
        agg.violation("builtin-allowlist-mutated", "fickling.ml.ML_ALLOWLIST changed during nested unpicklings", {"reentrant": "any"})
        ml.ML_ALLOWLIST.clear()
        ml.ML_ALLOWLIST.update(copy.deepcopy(base))


def run_shard(ctx):
    mods = setup()
    base = copy.deepcopy(mods[0].ML_ALLOWLIST)
    if ctx.shard == ctx.nshards - 1 or ctx.nshards == 1:
        reentrant_instances(ctx, mods, base)
    static0 = static_answer(mods)
    for hist in histories(ctx):
        run_history(ctx, mods, base, static0, hist)
    long_lived(ctx, mods, base)


def replay(ctx, payload):
    mods = setup()
    base = copy.deepcopy(mods[0].ML_ALLOWLIST)
    if "reentrant" in payload["case"]:
        reentrant_instances(ctx, mods, base)
        return
    run_history(ctx, mods, base, static_answer(mods), payload["case"]["history"])

"""C04 - Detection floor: dangerous imports and calls are never rated LIKELY_SAFE."""
from vp import asm, gen, refvm
from vp.core import h

CONFIG = dict(
    level="exploration",
    rule=("programs built from a labelled vocabulary (eval-class builtins, other builtins under both module "
          "spellings, one global per documented dangerous module and submodule form, benign stdlib, "
          "non-stdlib) crossed with every global-resolving opcode {GLOBAL, STACK_GLOBAL, INST}, every "
          "call-making opcode {REDUCE, OBJ, INST, NEWOBJ, NEWOBJ_EX}, computed callees, 12 fates of the value, "
          "7 protocol framings and benign data before/after - small, and tens of thousands of opcodes of plain data - (quick: seeded stratified sample; thorough: the "
          "full cross product).  The floor is computed from the generator's labels *confirmed by the "
          "reference VM's log* (the VM really resolved / called that entry) and compared with the public "
          "safety check's severity - on a fresh parse and (sampled) on an already analysed object edited into the "
          "same opcode list through insert/delete/slice or the injection helpers.  A case is one distinct byte string; non-trivial = reference VM and "
          "fickling both accept it and its floor is above LIKELY_SAFE."),
    assumptions=[
        "stdlib / dangerous / non-stdlib labels are fixed by the generator's vocabulary, not by fickling",
        "the default analyser after `import fickling` (all registered analyses) gives the verdict",
        "eval-class builtins are functions: NEWOBJ/NEWOBJ_EX on them does not call them in CPython, so the "
        "OVERTLY_MALICIOUS call floor is asserted for REDUCE, OBJ and INST only",
        "inputs on which analysis raises are C19's business",
    ],
    min_nontrivial={"quick": 5000, "thorough": 100000},
    nshards={"quick": 16, "thorough": 16},
    timeout={"quick": 900, "thorough": 5400},
    required_counters=("floors_checked", "loader_faces_checked", "edited_objects_checked", "helper_edits_checked"),
)

RANK = {"LIKELY_SAFE": 0, "POSSIBLY_UNSAFE": 1, "SUSPICIOUS": 2, "LIKELY_UNSAFE": 3,
        "LIKELY_OVERTLY_MALICIOUS": 4, "OVERTLY_MALICIOUS": 5}
DANGEROUS_TOP = {"os", "posix", "nt", "subprocess", "sys", "socket", "shutil", "urllib", "dill", "code"}
DANGEROUS_EXACT = {"torch.hub"}

LABEL = {}
for _m in gen.BUILTIN_MODULES:
    for _n in gen.EVALCLASS:
        LABEL[(_m, _n)] = "evalclass"
    for _n in gen.BUILTIN_OTHER:
        LABEL[(_m, _n)] = "builtin-other"
for _m, _n in gen.DANGEROUS:
    LABEL[(_m, _n)] = "dangerous"
for _m, _n in gen.BENIGN_STDLIB:
    LABEL[(_m, _n)] = "benign"
for _m, _n in gen.NONSTD:
    LABEL[(_m, _n)] = "nonstd"
NORM_LABEL = {refvm.norm_global(m, n): v for (m, n), v in LABEL.items()}


def _k(t):
    return b"\x8c" + bytes([len(t)]) + t.encode()


def is_dangerous_module(m):
    parts = m.split(".")
    return parts[0] in DANGEROUS_TOP or any(".".join(parts[:i + 1]) in DANGEROUS_EXACT for i in range(len(parts)))


def floor_of(vm):
    """(rank, reason) from the reference VM's event log."""
    best = (0, None)

    def up(rank, reason):
        nonlocal best
        if rank > best[0]:
            best = (rank, reason)

    for ev, org in zip(vm.log.events, vm.log.origin):
        opn = refvm.OPNAME.get(org[1], "?") if org else "?"
        if ev[0] == "import":
            lab = NORM_LABEL.get((ev[1], ev[2]))
            if lab == "dangerous" and is_dangerous_module(ev[1]):
                up(4, f"import-floor:dangerous:{ev[1].split('.')[0] if ev[1] not in DANGEROUS_EXACT else ev[1]}")
            elif lab == "nonstd":
                up(3, "import-floor:nonstd")
        elif ev[0] == "call":
            callee = ev[1]
            if callee[0] == "glob":
                lab = NORM_LABEL.get((callee[1], callee[2]))
                if lab == "evalclass":
                    if opn in ("REDUCE", "OBJ", "INST"):
                        up(5, f"call-floor:evalclass:{callee[2]}:{opn}")
                    else:
                        up(3, "call-floor:builtin-other")
                elif lab == "builtin-other":
                    up(3, "call-floor:builtin-other")
                elif lab == "nonstd":
                    up(3, "call-floor:nonstd")
            else:
                up(3, "call-floor:computed-callee")
    return best


def programs(ctx):
    """Yield (label, bytes).  Quick = seeded stratified sample of the cross product; thorough = all."""
    quick = ctx.tier == "quick"
    names = sorted(LABEL)
    rng = asm.rng_for(ctx.seed, "c04")
    framings = gen.FRAMINGS

    def pres(name):
        # "benign data before": plain data, and benign stdlib globals - in particular ones that carry the
        # *same attribute name* as the entry under test (imported only, or called and discarded)
        same = [b"cplatform\n" + name.encode() + b"\n0",
                b"ccollections\n" + name.encode() + b"\n(tR0",
                gen.push_global("STACK_GLOBAL", "copy", name) + b"0"]
        # ... and benign constructs the pickle VM accepts but a symbolic interpreter may not model (APPEND /
        # APPENDS / ADDITEMS / SETITEM on the result of a call, persistent ids): whatever follows them must
        # still be seen - or the whole pickle refused - never silently cut off
        unmodelled = [b"ccollections\ndeque\n)R(K\x01K\x02e0", b"ccollections\ndeque\n)RK\x01a0",
                      b"ccollections\nUserList\n)R}bK\x01a0", b"ccollections\nOrderedDict\n)R(" + _k("k") + b"K\x01u0",
                      b"K\x07Q0", b"Ppid\n0",
                      # ... the same on a global pushed directly (sys.path.extend shape)
                      b"ccollections\nOrderedDict\nK\x01a0", b"ccollections\ndeque\n(K\x01K\x02e0",
                      b"\x80\x04ccollections\nChainMap\n(K\x01\x900", b"ccollections\nUserDict\n(" + _k("k") + b"K\x01u0"]
        return gen.BENIGN_PRE + same + unmodelled

    # A. import only
    for (m, n) in names:
        for r in ("GLOBAL", "STACK_GLOBAL", "GLOBAL-memo-collide", "STACK_GLOBAL-memo-collide", "STACK_GLOBAL-via-memo"):
            g = gen.push_global(r, m, n)
            for fate in ("result", "pop", "pop_mark", "dup", "memo_unused", "memo_reused", "in_list", "in_tuple",
                         "in_dict", "under_result"):
                body = gen.apply_fate(g, fate)
                for fr in framings:
                    for pre in pres(n):
                        for post in gen.BENIGN_POST:
                            if quick and rng.random() > 0.04:
                                continue
                            data = gen.frame(body, fr, pre, post)
                            if ctx.mine(data):
                                yield f"import-{r}-{fate}-{fr}", data
    # B. calls
    for (m, n) in names:
        for r in gen.RESOLVE_OPS + ["GLOBAL-memo-collide", "STACK_GLOBAL-memo-collide", "STACK_GLOBAL-via-memo"]:
            for c in gen.CALL_OPS:
                call = gen.make_call(r, c, m, n, ["1+1", 2])
                if call is None:
                    continue
                for fate in gen.FATES:
                    body = gen.apply_fate(call, fate)
                    for fr in framings:
                        for pre in pres(n):
                            for post in gen.BENIGN_POST:
                                if quick and rng.random() > 0.025:
                                    continue
                                data = gen.frame(body, fr, pre, post)
                                if ctx.mine(data):
                                    yield f"call-{r}-{c}-{fate}-{fr}", data
    # C. computed callees: the callee of the outer call is itself the result of a call
    inner_names = [("builtins", "getattr"), ("__builtin__", "__import__"), ("collections", "OrderedDict"),
                   ("functools", "partial"), ("operator", "attrgetter"), ("vp_sink", "hit"), ("datetime", "date")]
    for (m, n) in inner_names:
        for r in ("GLOBAL", "STACK_GLOBAL"):
            for c in ("REDUCE", "OBJ", "NEWOBJ"):
                inner = gen.make_call(r, c, m, n, ["x"])
                for outer in ("REDUCE", "OBJ"):
                    if outer == "REDUCE":
                        call = inner + b"(" + gen.arg_bytes(["y", 1]) + b"tR"
                    else:
                        call = b"(" + inner + gen.arg_bytes(["y"]) + b"o"
                    for fate in gen.FATES:
                        body = gen.apply_fate(call, fate)
                        for fr in framings:
                            if quick and rng.random() > 0.3:
                                continue
                            data = gen.frame(body, fr)
                            if ctx.mine(data):
                                yield f"computed-{c}-{outer}-{fate}-{fr}", data
    # D. scale: the same entries behind / in front of tens of thousands of opcodes of plain data
    bigs = [b"(" + b"K\x01" * 12000 + b"l0", b"(" + b"I7\n" * 11000 + b"t0", b"]" + b"K\x02a" * 6000 + b"0",
            b"(" + b"K\x01" * 40000 + b"l0"]
    for (m, n) in names:
        for r in ("GLOBAL", "STACK_GLOBAL", "INST"):
            forms = []
            if r != "INST":
                forms.append(("import", gen.push_global(r, m, n)))
            for c in (("INST",) if r == "INST" else ("REDUCE", "OBJ")):
                call = gen.make_call(r, c, m, n, ["1+1", 2])
                if call is not None:
                    forms.append((f"call-{c}", call))
            for fname, body in forms:
                for bi, big in enumerate(bigs):
                    if quick and rng.random() > (0.35 if bi < 3 else 0.08):
                        continue
                    for where in ("before", "after", "both"):
                        if quick and rng.random() > 0.6:
                            continue
                        pre = big if where in ("before", "both") else b""
                        post = big[:-1] if where in ("after", "both") else None
                        # after: the dangerous value stays under the big container, which becomes the result
                        data = pre + (body + post + b"\x86." if post else body + b".")
                        fr = rng.choice(["none", "proto2", "proto4"])
                        data = gen.frame(data, fr)
                        if ctx.mine(data):
                            yield f"big-{fname}-{r}-{where}-{bi}-{fr}", data
    # E. Python 2 module names at protocol >= 3, where the unpickler does NOT translate them: a module literally called
    #    `Queue` / `commands` / `copy_reg` is not part of the standard library of the interpreter that would load it
    legacy = [("Queue", "Queue"), ("commands", "getoutput"), ("ConfigParser", "ConfigParser"), ("cPickle", "loads"),
              ("urllib2", "urlopen"), ("SocketServer", "TCPServer"), ("copy_reg", "_reconstructor"), ("UserDict", "UserDict"),
              ("cStringIO", "StringIO"), ("Tkinter", "Tk"), ("httplib", "HTTPConnection"), ("anydbm", "open"), ("thread", "start_new_thread")]
    for (m, n) in legacy:
        for r in ("GLOBAL", "STACK_GLOBAL", "INST"):
            forms = [("import", gen.push_global(r, m, n))] if r != "INST" else []
            call = gen.make_call(r, "INST" if r == "INST" else "REDUCE", m, n, ["x"])
            if call is not None:
                forms.append(("call", call))
            for fname, body in forms:
                for fate in ("result", "pop", "in_list", "build_target"):
                    for proto in (3, 4, 5):
                        for pre in (b"", gen.BENIGN_PRE[1] if len(gen.BENIGN_PRE) > 1 else b""):
                            try:
                                data = bytes([0x80, proto]) + pre + gen.apply_fate(body, fate)
                            except Exception:
                                continue
                            if ctx.mine(data):
                                yield f"legacy-{fname}-{r}-{fate}-p{proto}", data
    # F. globals reached through the copyreg extension registry (EXT1 / EXT2 / EXT4; code 1 = vp_sink.hit, a
    # non-standard-library global; the pinned tree refuses these opcodes, which is vacuous here).  setup() has let the
    # stock unpickler resolve the code once, so the process-wide extension cache is warm - as in an application that
    # has loaded one of its own registered objects before it scans a file.
    for ename, ext in (("EXT1", b"\x82\x01"), ("EXT2", b"\x83\x01\x00"), ("EXT4", b"\x84\x01\x00\x00\x00")):
        for fname, body in (("import", ext), ("call", ext + b"(K\x01tR"), ("call-noargs", ext + b")R")):
            for fate in ("result", "pop", "in_list", "memo_reused", "under_result"):
                for pre in (b"", gen.BENIGN_PRE[1] if len(gen.BENIGN_PRE) > 1 else b""):
                    try:
                        data = b"\x80\x02" + pre + gen.apply_fate(body, fate)
                    except Exception:
                        continue
                    if ctx.mine(data):
                        yield f"ext-{fname}-{ename}-{fate}", data
    # the classic: getattr(__import__('os'), 'system')('id')
    classic = (b"c__builtin__\ngetattr\n(c__builtin__\n__import__\n(" + gen.arg_bytes(["os"]) + b"tR" +
               gen.arg_bytes(["system"]) + b"tR(" + gen.arg_bytes(["id"]) + b"tR")
    for fate in gen.FATES:
        for fr in framings:
            data = gen.frame(gen.apply_fate(classic, fate), fr)
            if ctx.mine(data):
                yield f"classic-getattr-import-{fate}-{fr}", data


def check(ctx, f, analysis, label, data):
    agg = ctx.agg
    vm, err = refvm.run_ref(data)
    if err is not None:
        agg.count("refvm_rejected")
        return
    agg.count("refvm_accepted")
    rank, reason = floor_of(vm)
    if label.startswith("legacy-") and rank < 3 and any(ev[0] == "import" for ev in vm.log.events):
        rank, reason = 3, "import-floor:nonstd:legacy-module-name-at-protocol-3-or-later"
    ch = h(data)
    try:
        sev = analysis.check_safety(f.Pickled.load(data)).severity.name
    except Exception as e:
        agg.hist("analysis_raised(C19)", type(e).__name__)
        agg.case(ch, False)
        return
    if not agg.case(ch, rank > 0, {"label": label, "floor": reason, "verdict": sev, "hex": data.hex()[:120]}):
        return
    if rank == 0:
        return
    agg.count("floors_checked")
    agg.hist("floor_reasons", reason.split(":")[0] + ":" + reason.split(":")[1])
    agg.hist("verdicts", sev)
    if RANK[sev] >= rank and (not label.startswith(("import-", "call-")) or int(ch[:2], 16) % 4 == 0):
        edited_object(ctx, f, analysis, label, data, rank, reason, sev)
    if RANK[sev] >= rank and (not label.startswith(("import-", "call-")) or int(ch[:2], 16) % 4 == 1):
        loader_face(ctx, label, data, rank, reason, sev)
    if RANK[sev] < rank:
        want = [k for k, v in RANK.items() if v == rank][0]
        agg.violation(reason, f"verdict {sev} is below the floor {want} required because the VM would "
                              f"{'import' if reason.startswith('import') else 'call'} this entry",
                      {"label": label, "hex": data.hex(), "verdict": sev, "floor": want,
                       "vm_events": [str(e)[:160] for e in vm.log.events[:6]]})


WARM = (b"K\x01.", b"ccollections\nOrderedDict\n)R.", b"\x80\x02]q\x00(K\x01K\x02e.")


def edited_object(ctx, f, analysis, label, data, rank, reason, fresh_sev):
    """The same opcode list reached by editing an object that has already been analysed: the floor holds
    for the pickle the object now *is*, whatever it was when it was first looked at."""
    agg = ctx.agg
    target = list(f.Pickled.load(data))
    for wi, (base, warm, how) in enumerate(((WARM[0], "check", "insert"), (WARM[1], "props", "slice"),
                                            (WARM[2], "check+ast", "insert"), (data, "check", "identity-slice"))):
        if how == "insert" and len(target) > 3000:
            continue            # one insert per opcode: quadratic in the harness, nothing new over the slice form
        try:
            p = f.Pickled.load(base)
            if "check" in warm:
                analysis.check_safety(p)
            if "props" in warm:
                p.properties.imports, p.has_call, p.non_standard_imports
            if "ast" in warm:
                p.ast
            n0 = len(p)
            if how == "insert":
                for i, op in enumerate(target):
                    p.insert(i, op)
                for _ in range(n0):
                    del p[len(p) - 1]
            elif how == "slice":
                p[0:n0] = target
            else:
                p[0:n0] = list(p)
            if p.dumps() != f.Pickled(target).dumps():
                agg.count("edited_object_not_equal(C14)")
                continue
            sev = analysis.check_safety(p).severity.name
        except Exception as e:
            agg.hist("edited_object_raised", type(e).__name__)
            continue
        agg.count("edited_objects_checked")
        if RANK[sev] < rank:
            want = [k for k, v in RANK.items() if v == rank][0]
            agg.violation("floor-lost-on-edited-object",
                          f"an already analysed object edited into this pickle gets {sev} (fresh parse: {fresh_sev}); "
                          f"floor is {want} ({reason})",
                          {"label": label, "hex": data.hex(), "verdict": sev, "floor": want, "warm": warm, "edit": how,
                           "base_hex": base.hex()})
            return


class FakePickle:
    """Stands in for the `pickle` module inside fickling.loader: records, never unpickles."""
    calls = []

    @classmethod
    def loads(cls, data, *a, **k):
        cls.calls.append(bytes(data))
        return ("vp-not-loaded", len(data))


BENIGN_FIRST = (b"\x80\x02]q\x00(K\x01K\x02e.", b"N.", b"\x80\x04\x95\x05\x00\x00\x00\x00\x00\x00\x00\x8c\x01a\x94.")


def loader_face(ctx, label, data, rank, reason, fresh_sev):
    """The verdict as the checked loader applies it, for deliveries where the dangerous pickle is not at the start
    of the underlying buffer: behind a header, behind an accepted benign pickle (second load from one stream)."""
    import io
    import fickling.loader as loader
    from fickling.exception import UnsafeFileError
    agg = ctx.agg
    loader.pickle = FakePickle
    want = [k for k, v in RANK.items() if v == rank][0]
    for first in (BENIGN_FIRST[int(h(data)[2:4], 16) % len(BENIGN_FIRST)],):
        for how in ("seek-past", "load-first-then-second", "bytearray-slice", "mmap-seek-past", "memoryview"):
            FakePickle.calls.clear()
            try:
                if how == "bytearray-slice":
                    src = bytearray(data)
                elif how == "memoryview":
                    src = io.BytesIO(memoryview(first + data)[len(first):])
                elif how == "mmap-seek-past":
                    import mmap
                    import os
                    mp = os.path.join(ctx.scratch, "c04_map.bin")
                    with open(mp, "wb") as fh:
                        fh.write(first + data)
                    with open(mp, "rb") as fh:
                        src = mmap.mmap(fh.fileno(), 0, access=mmap.ACCESS_READ)
                    os.remove(mp)
                    src.seek(len(first))
                else:
                    src = io.BytesIO(first + data)
                    if how == "seek-past":
                        src.seek(len(first))
                    else:
                        loader.load(src)          # the benign one: accepted (recorded, not unpickled)
                loader.load(src)
                outcome = "returned"
            except UnsafeFileError as e:
                sevname = (e.info or {}).get("severity") if isinstance(e.info, dict) else None
                outcome = sevname if sevname in RANK else "unsafe-without-severity"
            except RecursionError:
                return
            except Exception as e:
                agg.hist("loader_face_raised", type(e).__name__)
                continue
            agg.count("loader_faces_checked")
            if outcome == "returned" or (outcome in RANK and RANK[outcome] < rank):
                agg.violation("floor-lost-through-loader",
                              f"checked loader, dangerous pickle delivered as {how}: outcome {outcome} (fresh parse: {fresh_sev}); "
                              f"floor is {want} ({reason})",
                              {"label": label, "hex": data.hex(), "verdict": outcome, "floor": want, "delivery": how,
                               "first_hex": first.hex()})
                return


HELPERS = [
    ("insert_python_exec", lambda p: p.insert_python_exec("x = 1"), 5),
    ("insert_python_exec-last", lambda p: p.insert_python_exec("x = 1", run_first=False), 5),
    ("insert_python_eval", lambda p: p.insert_python_eval("1+1", use_output_as_unpickle_result=True), 5),
    ("insert_python-os", lambda p: p.insert_python("id", module="os", attr="system"), 4),
    ("insert_python-nonstd", lambda p: p.insert_python(1, module="vp_sink", attr="hit", run_first=False), 3),
    ("append_python-os", lambda p: p.append_python("id", module="os", attr="system"), 4),
    ("fn-on-unpickled", lambda p: p.insert_function_call_on_unpickled_object("def f(o):\n    return o\n"), 5),
    ("fn-on-unpickled-compiled",
     lambda p: p.insert_function_call_on_unpickled_object("def f(o):\n    return o\n", compile_code=True), 5),
]


def helper_edits(ctx, f, analysis):
    """warm -> injection helper -> check, on benign bases (every protocol of a few values)."""
    import pickle
    agg = ctx.agg
    rng = asm.rng_for(ctx.seed, "c04-helpers")
    bases = [pickle.dumps(v, pr) for pr in range(6) for v in ([1, 2], {"a": (1, 2.5)}, "txt")]
    bases += [b"ccollections\nOrderedDict\n)R."]
    for bi, base in enumerate(bases):
        for hname, fn, rank in HELPERS:
            for warm in ("none", "check", "props", "check-twice"):
                if not ctx.mine(base + hname.encode() + warm.encode()):
                    continue
                try:
                    p = f.Pickled.load(base)
                    if warm.startswith("check"):
                        analysis.check_safety(p)
                    if warm == "check-twice":
                        analysis.check_safety(p)
                    if warm == "props":
                        p.properties.calls, p.has_import
                    fn(p)
                    sev = analysis.check_safety(p).severity.name
                except Exception as e:
                    agg.hist("helper_edit_raised", f"{hname}:{type(e).__name__}")
                    continue
                agg.count("helper_edits_checked")
                if RANK[sev] < rank:
                    want = [k for k, v in RANK.items() if v == rank][0]
                    agg.violation("floor-lost-on-edited-object",
                                  f"{hname} on an object analysed before ({warm}) is rated {sev}; floor is {want}",
                                  {"label": f"helper-{hname}-{warm}", "hex": base.hex(), "verdict": sev, "floor": want})


def setup(ctx=None, user=False):
    import fickling  # noqa: F401
    import fickling.fickle as f
    import fickling.analysis as analysis
    # the stock unpickler resolves extension code 1 (vp_sink.hit: the harness's own recording function, only returned,
    # never called) once, which fills copyreg._extension_cache for this process
    import copyreg
    import pickle as _pickle_mod
    from vp import refvm  # noqa: F401  (registers code 1)
    try:
        _pickle_mod.loads(b"\x80\x02\x82\x01.")
    except Exception:
        pass
    assert 1 in copyreg._extension_cache or True
    if user:
        # configuration "user-analyses": the application has defined analyses of its own before the first check, the way
        # the registry invites (subclassing registers): a customised subclass of every stock analysis and a new one.
        # Added rules may add findings; the floor of the stock rules stays.
        stock = list(analysis.Analysis.ALL)
        for a in (stock if user == "all" else [stock[int(user) % len(stock)]]):
            base = type(a)
            type("Site" + base.__name__, (base,), {"__module__": __name__, "__doc__": "site customisation of " + base.__name__})

        class SiteNothing(analysis.Analysis):
            def analyze(self, context):
                return iter(())
    if ctx is not None:
        orig = ctx.agg.violation
        ctx.agg.violation = lambda k, what, w: orig(k, what, dict(w, configuration=f"user-analyses:{user}" if user else "stock"))
        ctx.agg.hist("configurations", f"user-analyses:{user}" if user else "stock")
    return f, analysis


def run_shard(ctx):
    # one shard in four runs with site analyses registered: all stock ones customised, or one of them (which one rotates)
    user = False
    if (ctx.shard + ctx.seed) % 4 == 1:
        k = (ctx.shard // 4 + ctx.seed) % 5
        user = "all" if k == 4 else str(k + 2)          # 2 = NonStandardImports, 3 = UnsafeImportsML, 4 = BadCalls, 5 = OvertlyBadEvals
    f, analysis = setup(ctx, user=user)
    ctx.agg.notes.append({"registered_analyses": [type(a).__name__ for a in analysis.Analysis.ALL]})
    for label, data in programs(ctx):
        check(ctx, f, analysis, label, data)
    helper_edits(ctx, f, analysis)


def replay(ctx, payload):
    c = payload["case"]
    conf = c.get("configuration", "stock")
    f, analysis = setup(ctx, user=conf.split(":", 1)[1] if conf.startswith("user-analyses:") else False)
    check(ctx, f, analysis, c.get("label", "replay"), bytes.fromhex(c["hex"]))
